#!/bin/sh
# Offline setup: warm the Go build cache for the checker (plain and -race builds).
export GOFLAGS=-mod=mod GOPROXY=off GOSUMDB=off GOTOOLCHAIN=local
cd "$(dirname "$0")/mc" || exit 1
mkdir -p ../bin ../evidence ../replays
go build -o ../bin/mc.setup ./cmd/mc || exit 1
rm -f ../bin/mc.setup
# warm the race-detector build cache for the auxiliary pass of C08
go build -race -o ../bin/racer.setup ./cmd/racer && rm -f ../bin/racer.setup
exit 0
