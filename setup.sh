#!/bin/sh
# Offline setup: warm the Go build cache for the checker (plain and -race builds).
export GOFLAGS=-mod=mod GOPROXY=off GOSUMDB=off GOTOOLCHAIN=local
cd "$(dirname "$0")/mc" || exit 1
mkdir -p ../bin ../evidence ../replays
go build -o ../bin/mc.setup ./cmd/mc || exit 1
rm -f ../bin/mc.setup
exit 0
