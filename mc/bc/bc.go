// Package bc is an independent decoder/verifier of expr bytecode and an abstract
// stack machine that explores every path of a program (explicit-state search).
// The opcode table is written against the symbolic vm.Op* constants only.
package bc

import (
	"fmt"
	"reflect"
	"regexp"

	"github.com/antonmedv/expr/vm"
)

type operand int

const (
	none  operand = iota
	konst         // 16-bit index into Constants
	jumpF         // 16-bit forward offset
	jumpB         // 16-bit backward offset
	imm           // 16-bit immediate
)

type constKind int

const (
	anyConst constKind = iota
	strConst
	callConst
	reConst
)

type opInfo struct {
	name   string
	arg    operand
	ck     constKind
	pops   int // fixed pops (data-dependent ones handled in code)
	pushes int
	scope  bool // needs an open scope
}

var table = map[byte]opInfo{}

func def(op byte, name string, arg operand, ck constKind, pops, pushes int, scope bool) {
	table[op] = opInfo{name, arg, ck, pops, pushes, scope}
}

func init() {
	def(vm.OpPush, "Push", konst, anyConst, 0, 1, false)
	def(vm.OpPop, "Pop", none, 0, 1, 0, false)
	def(vm.OpRot, "Rot", none, 0, 2, 2, false)
	def(vm.OpFetch, "Fetch", konst, strConst, 0, 1, false)
	def(vm.OpFetchNilSafe, "FetchNilSafe", konst, strConst, 0, 1, false)
	def(vm.OpFetchMap, "FetchMap", konst, strConst, 0, 1, false)
	def(vm.OpTrue, "True", none, 0, 0, 1, false)
	def(vm.OpFalse, "False", none, 0, 0, 1, false)
	def(vm.OpNil, "Nil", none, 0, 0, 1, false)
	def(vm.OpNegate, "Negate", none, 0, 1, 1, false)
	def(vm.OpNot, "Not", none, 0, 1, 1, false)
	for _, op := range []byte{vm.OpEqual, vm.OpEqualInt, vm.OpEqualString, vm.OpIn, vm.OpLess, vm.OpMore, vm.OpLessOrEqual, vm.OpMoreOrEqual,
		vm.OpAdd, vm.OpSubtract, vm.OpMultiply, vm.OpDivide, vm.OpModulo, vm.OpExponent, vm.OpRange, vm.OpMatches, vm.OpContains,
		vm.OpStartsWith, vm.OpEndsWith, vm.OpIndex} {
		def(op, fmt.Sprintf("Bin%d", op), none, 0, 2, 1, false)
	}
	def(vm.OpMatchesConst, "MatchesConst", konst, reConst, 1, 1, false)
	def(vm.OpSlice, "Slice", none, 0, 3, 1, false)
	def(vm.OpProperty, "Property", konst, strConst, 1, 1, false)
	def(vm.OpPropertyNilSafe, "PropertyNilSafe", konst, strConst, 1, 1, false)
	def(vm.OpCall, "Call", konst, callConst, 0, 1, false)         // pops Call.Size
	def(vm.OpCallFast, "CallFast", konst, callConst, 0, 1, false) // pops Call.Size
	def(vm.OpMethod, "Method", konst, callConst, 1, 1, false)     // pops Call.Size + 1
	def(vm.OpMethodNilSafe, "MethodNilSafe", konst, callConst, 1, 1, false)
	def(vm.OpArray, "Array", none, 0, 1, 1, false) // pops 1 + n
	def(vm.OpMap, "Map", none, 0, 1, 1, false)     // pops 1 + 2n
	def(vm.OpLen, "Len", none, 0, 0, 1, false)     // peeks
	def(vm.OpCast, "Cast", imm, 0, 1, 1, false)
	def(vm.OpJump, "Jump", jumpF, 0, 0, 0, false)
	def(vm.OpJumpIfTrue, "JumpIfTrue", jumpF, 0, 0, 0, false)   // peeks
	def(vm.OpJumpIfFalse, "JumpIfFalse", jumpF, 0, 0, 0, false) // peeks
	def(vm.OpJumpBackward, "JumpBackward", jumpB, 0, 0, 0, false)
	def(vm.OpStore, "Store", konst, strConst, 1, 0, true)
	def(vm.OpLoad, "Load", konst, strConst, 0, 1, true)
	def(vm.OpInc, "Inc", konst, strConst, 0, 0, true)
	def(vm.OpBegin, "Begin", none, 0, 0, 0, false)
	def(vm.OpEnd, "End", none, 0, 0, 0, true)
}

// Instr is one decoded instruction.
type Instr struct {
	Addr int
	Op   byte
	Arg  int
	Next int // address of the following instruction
	Info opInfo
}

// Issue is one well-formedness defect.
type Issue struct {
	Kind string
	Addr int
	Msg  string
}

// Name returns the mnemonic.
func (o opInfo) Name() string { return o.name }

func (i Issue) String() string { return fmt.Sprintf("%s@%d: %s", i.Kind, i.Addr, i.Msg) }

// Decoded program.
type Decoded struct {
	Instrs  map[int]*Instr
	Order   []*Instr
	Len     int
	Unknown bool // an opcode the table does not know (model out of date), decoding stopped
}

// Decode linearly decodes the program and checks operands, constant kinds and jump targets.
func Decode(p *vm.Program) (*Decoded, []Issue) {
	d := &Decoded{Instrs: map[int]*Instr{}, Len: len(p.Bytecode)}
	var issues []Issue
	b := p.Bytecode
	for a := 0; a < len(b); {
		info, ok := table[b[a]]
		if !ok {
			if b[a] > vm.OpEnd {
				issues = append(issues, Issue{"unknown-opcode", a, fmt.Sprintf("opcode %#x is beyond the last defined opcode", b[a])})
			} else {
				d.Unknown = true
			}
			return d, issues
		}
		in := &Instr{Addr: a, Op: b[a], Info: info, Next: a + 1}
		if info.arg != none {
			if a+2 >= len(b) {
				issues = append(issues, Issue{"truncated-operand", a, info.name})
				return d, issues
			}
			in.Arg = int(b[a+1]) | int(b[a+2])<<8
			in.Next = a + 3
		}
		d.Instrs[a] = in
		d.Order = append(d.Order, in)
		a = in.Next
	}
	for _, in := range d.Order {
		switch in.Info.arg {
		case konst:
			if in.Arg >= len(p.Constants) {
				issues = append(issues, Issue{"constant-out-of-range", in.Addr, fmt.Sprintf("%s index %d, pool size %d", in.Info.name, in.Arg, len(p.Constants))})
				continue
			}
			c := p.Constants[in.Arg]
			switch in.Info.ck {
			case strConst:
				if _, ok := c.(string); !ok {
					issues = append(issues, Issue{"constant-kind", in.Addr, fmt.Sprintf("%s expects a string constant, got %T", in.Info.name, c)})
				}
			case callConst:
				if _, ok := c.(vm.Call); !ok {
					issues = append(issues, Issue{"constant-kind", in.Addr, fmt.Sprintf("%s expects a Call constant, got %T", in.Info.name, c)})
				}
			case reConst:
				if _, ok := c.(*regexp.Regexp); !ok {
					issues = append(issues, Issue{"constant-kind", in.Addr, fmt.Sprintf("%s expects a *regexp.Regexp constant, got %T", in.Info.name, c)})
				}
			}
		case imm:
			if in.Op == vm.OpCast && in.Arg != 0 && in.Arg != 1 {
				issues = append(issues, Issue{"bad-immediate", in.Addr, fmt.Sprintf("Cast %d", in.Arg)})
			}
		case jumpF, jumpB:
			t := in.Next + in.Arg
			if in.Info.arg == jumpB {
				t = in.Next - in.Arg
			}
			if t < 0 || t > d.Len {
				issues = append(issues, Issue{"jump-out-of-program", in.Addr, fmt.Sprintf("%s to %d, program length %d", in.Info.name, t, d.Len)})
			} else if t != d.Len && d.Instrs[t] == nil {
				issues = append(issues, Issue{"jump-inside-instruction", in.Addr, fmt.Sprintf("%s to %d", in.Info.name, t)})
			}
		}
	}
	return d, issues
}

// Target returns the jump target of a jump instruction.
func (in *Instr) Target() int {
	if in.Info.arg == jumpB {
		return in.Next - in.Arg
	}
	return in.Next + in.Arg
}

func (in *Instr) IsJump() bool { return in.Info.arg == jumpF || in.Info.arg == jumpB }

// abstract values
type av struct {
	k int // 0 other, 1 int, 2 bool, 3 collection of known length
	n int
}

var other = av{}

func aInt(n int) av { return av{1, n} }
func aBool(b bool) av {
	if b {
		return av{2, 1}
	}
	return av{2, 0}
}

type astate struct {
	ip     int
	stack  []av
	scopes []map[string]av
}

func (s *astate) key() string {
	b := []byte(fmt.Sprintf("%d|", s.ip))
	for _, v := range s.stack {
		b = append(b, byte('a'+v.k))
		b = append(b, []byte(fmt.Sprintf("%d,", v.n))...)
	}
	for _, sc := range s.scopes {
		b = append(b, '{')
		for _, k := range []string{"array", "i", "size", "count"} {
			if v, ok := sc[k]; ok {
				b = append(b, []byte(fmt.Sprintf("%s=%d.%d;", k, v.k, v.n))...)
			}
		}
		for k, v := range sc {
			switch k {
			case "array", "i", "size", "count":
			default:
				b = append(b, []byte(fmt.Sprintf("%s=%d.%d;", k, v.k, v.n))...)
			}
		}
		b = append(b, '}')
	}
	return string(b)
}

func (s *astate) clone() *astate {
	c := &astate{ip: s.ip, stack: append([]av{}, s.stack...)}
	for _, sc := range s.scopes {
		m := make(map[string]av, len(sc))
		for k, v := range sc {
			m[k] = v
		}
		c.scopes = append(c.scopes, m)
	}
	return c
}

// Stats of one exploration.
type Stats struct {
	States, Transitions, EndStates int
	Capped                         bool
	MaxDepth                       int
}

// Explore runs the abstract machine over every path. lens are the lengths an
// unknown collection may have (environment answers). Issues are invariant violations.
func Explore(p *vm.Program, d *Decoded, lens []int, maxStates int) (Stats, []Issue) {
	var st Stats
	var issues []Issue
	if d.Unknown {
		return st, nil
	}
	seen := map[string]bool{}
	start := &astate{}
	work := []*astate{start}
	seen[start.key()] = true
	add := func(s *astate) {
		st.Transitions++
		k := s.key()
		if !seen[k] {
			seen[k] = true
			work = append(work, s)
		}
	}
	issueSeen := map[string]bool{}
	fail := func(kind string, addr int, msg string) {
		k := fmt.Sprintf("%s@%d", kind, addr)
		if !issueSeen[k] {
			issueSeen[k] = true
			issues = append(issues, Issue{kind, addr, msg})
		}
	}
	for len(work) > 0 {
		s := work[len(work)-1]
		work = work[:len(work)-1]
		st.States++
		if st.States > maxStates {
			st.Capped = true
			break
		}
		if len(s.stack) > st.MaxDepth {
			st.MaxDepth = len(s.stack)
		}
		if s.ip == d.Len {
			st.EndStates++
			if len(s.stack) != 1 {
				fail("end-depth", s.ip, fmt.Sprintf("a path ends with %d values on the stack", len(s.stack)))
			}
			if len(s.scopes) != 0 {
				fail("end-scope", s.ip, fmt.Sprintf("a path ends with %d scopes open", len(s.scopes)))
			}
			continue
		}
		in := d.Instrs[s.ip]
		if in == nil {
			fail("ip-not-on-boundary", s.ip, "execution reaches a non-instruction address")
			continue
		}
		info := in.Info
		need := info.pops
		switch in.Op {
		case vm.OpCall, vm.OpCallFast, vm.OpMethod, vm.OpMethodNilSafe:
			if in.Arg < len(p.Constants) {
				if c, ok := p.Constants[in.Arg].(vm.Call); ok {
					need += c.Size
				}
			}
		case vm.OpLen, vm.OpJumpIfTrue, vm.OpJumpIfFalse:
			need = 1 // peek
		}
		if len(s.stack) < need {
			fail("stack-underflow", s.ip, fmt.Sprintf("%s needs %d values, stack has %d", info.name, need, len(s.stack)))
			continue
		}
		if info.scope && len(s.scopes) == 0 {
			fail("scope-op-without-scope", s.ip, info.name)
			continue
		}
		n := s.clone()
		n.ip = in.Next
		pop := func() av { v := n.stack[len(n.stack)-1]; n.stack = n.stack[:len(n.stack)-1]; return v }
		push := func(v av) { n.stack = append(n.stack, v) }
		top := func() av { return n.stack[len(n.stack)-1] }
		name := ""
		if info.ck == strConst && in.Arg < len(p.Constants) {
			name, _ = p.Constants[in.Arg].(string)
		}
		switch in.Op {
		case vm.OpPush:
			v := other
			if in.Arg < len(p.Constants) {
				c := p.Constants[in.Arg]
				if i, ok := c.(int); ok {
					v = aInt(i)
				} else if c != nil {
					rv := reflect.ValueOf(c)
					if rv.Kind() == reflect.Slice || rv.Kind() == reflect.Map {
						v = av{3, rv.Len()}
					}
				}
			}
			push(v)
			add(n)
		case vm.OpTrue:
			push(aBool(true))
			add(n)
		case vm.OpFalse:
			push(aBool(false))
			add(n)
		case vm.OpNot:
			v := pop()
			if v.k == 2 {
				push(aBool(v.n == 0))
			} else {
				push(other)
			}
			add(n)
		case vm.OpRot:
			b, a := pop(), pop()
			push(b)
			push(a)
			add(n)
		case vm.OpLess, vm.OpMore, vm.OpEqual, vm.OpEqualInt, vm.OpLessOrEqual, vm.OpMoreOrEqual:
			b, a := pop(), pop()
			if a.k == 1 && b.k == 1 {
				var r bool
				switch in.Op {
				case vm.OpLess:
					r = a.n < b.n
				case vm.OpMore:
					r = a.n > b.n
				case vm.OpEqual, vm.OpEqualInt:
					r = a.n == b.n
				case vm.OpLessOrEqual:
					r = a.n <= b.n
				case vm.OpMoreOrEqual:
					r = a.n >= b.n
				}
				push(aBool(r))
			} else {
				push(other)
			}
			add(n)
		case vm.OpJump, vm.OpJumpBackward:
			n.ip = in.Target()
			add(n)
		case vm.OpJumpIfTrue, vm.OpJumpIfFalse:
			v := top()
			takeIf := in.Op == vm.OpJumpIfTrue
			if v.k != 2 || (v.n == 1) == takeIf {
				j := n.clone()
				j.ip = in.Target()
				if v.k != 2 {
					j.stack[len(j.stack)-1] = aBool(takeIf)
				}
				add(j)
			}
			if v.k != 2 || (v.n == 1) != takeIf {
				if v.k != 2 {
					n.stack[len(n.stack)-1] = aBool(!takeIf)
				}
				add(n)
			}
		case vm.OpLen:
			v := top()
			if v.k == 3 {
				push(aInt(v.n))
				add(n)
			} else {
				for _, l := range lens {
					f := n.clone()
					f.stack[len(f.stack)-1] = av{3, l}
					f.stack = append(f.stack, aInt(l))
					add(f)
				}
			}
		case vm.OpArray, vm.OpMap:
			c := pop()
			if c.k != 1 {
				fail("array-size-not-int", s.ip, fmt.Sprintf("%s with a non-constant size on top of the stack", info.name))
				continue
			}
			k := c.n
			if in.Op == vm.OpMap {
				k *= 2
			}
			if k < 0 || len(n.stack) < k {
				fail("stack-underflow", s.ip, fmt.Sprintf("%s pops %d values, stack has %d", info.name, k, len(n.stack)))
				continue
			}
			n.stack = n.stack[:len(n.stack)-k]
			push(av{3, c.n})
			add(n)
		case vm.OpStore:
			n.scopes[len(n.scopes)-1][name] = pop()
			add(n)
		case vm.OpLoad:
			v, ok := n.scopes[len(n.scopes)-1][name]
			if !ok {
				v = other
			}
			push(v)
			add(n)
		case vm.OpInc:
			sc := n.scopes[len(n.scopes)-1]
			if v, ok := sc[name]; ok && v.k == 1 {
				sc[name] = aInt(v.n + 1)
			} else {
				fail("inc-of-non-int", s.ip, "OpInc "+name)
				continue
			}
			add(n)
		case vm.OpBegin:
			n.scopes = append(n.scopes, map[string]av{})
			add(n)
		case vm.OpEnd:
			n.scopes = n.scopes[:len(n.scopes)-1]
			add(n)
		default:
			for i := 0; i < need; i++ {
				pop()
			}
			for i := 0; i < info.pushes; i++ {
				push(other)
			}
			add(n)
		}
	}
	return st, issues
}

// Effect is the concrete stack effect the table predicts for one executed instruction.
// topInt is the int on top of the stack before the instruction (for Array/Map).
func Effect(p *vm.Program, in *Instr, topInt int) (pops, pushes int) {
	info := in.Info
	pops, pushes = info.pops, info.pushes
	switch in.Op {
	case vm.OpCall, vm.OpCallFast, vm.OpMethod, vm.OpMethodNilSafe:
		if c, ok := p.Constants[in.Arg].(vm.Call); ok {
			pops += c.Size
		}
	case vm.OpArray:
		pops += topInt
	case vm.OpMap:
		pops += 2 * topInt
	}
	return
}
