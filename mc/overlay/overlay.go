// Package overlay generates, from the CURRENT sources of the library, the additive
// overlay used by checks that need to own map-iteration order (C09) or to snapshot
// package-level state (C08): a rewritten copy of every file that ranges over a map
// (the loop iterates a key slice returned by the virtual package verifseam), and one
// generated file per package exporting the addresses of its package-level variables.
// Nothing under /repo is touched: the result is used with `go build -overlay`.
package overlay

import (
	"encoding/json"
	"fmt"
	"go/ast"
	"go/format"
	"go/importer"
	"go/parser"
	"go/token"
	"go/types"
	"os"
	"path/filepath"
	"sort"
	"strings"
)

const modPath = "github.com/antonmedv/expr"

// Site is one rewritten iteration site.
type Site struct {
	ID   string
	Kind string // "range" | "MapKeys"
}

// Result of a generation.
type Result struct {
	OverlayFile string
	Sites       []Site
	Unseamed    []string
	Globals     map[string][]string // package dir -> variable names
	Points      int                 // scheduling points injected (method and exported-function entries of the compile pipeline)
}

// pointPackages: where scheduling points are injected (the compile pipeline; the VM is stepped through its debug seam).
var pointPackages = map[string]bool{"": true, "checker": true, "compiler": true, "optimizer": true, "conf": true, "ast": true}

// wantsPoint: every method and every exported function of the pipeline packages; in package ast only the walker
// (the accessors of ast nodes are called from everywhere and would only multiply equivalent schedules).
func wantsPoint(rel string, fd *ast.FuncDecl) bool {
	if fd.Body == nil || len(fd.Body.List) == 0 || !pointPackages[rel] {
		return false
	}
	if rel == "ast" {
		return fd.Recv != nil && fd.Name.Name == "walk"
	}
	if fd.Name.Name == "init" || fd.Name.Name == "String" || fd.Name.Name == "Error" {
		return false
	}
	return fd.Recv != nil || fd.Name.IsExported()
}

type pkgInfo struct {
	dir   string
	files []*ast.File
	names []string
	pkg   *types.Package
	info  *types.Info
}

type imp struct {
	repo  string
	fset  *token.FileSet
	std   types.Importer
	pkgs  map[string]*pkgInfo
	stack map[string]bool
}

func (im *imp) Import(path string) (*types.Package, error) {
	if path == modPath || strings.HasPrefix(path, modPath+"/") {
		pi, err := im.load(strings.TrimPrefix(strings.TrimPrefix(path, modPath), "/"))
		if err != nil {
			return nil, err
		}
		return pi.pkg, nil
	}
	return im.std.Import(path)
}

func (im *imp) load(rel string) (*pkgInfo, error) {
	if pi, ok := im.pkgs[rel]; ok {
		return pi, nil
	}
	dir := filepath.Join(im.repo, rel)
	ents, err := os.ReadDir(dir)
	if err != nil {
		return nil, err
	}
	pi := &pkgInfo{dir: dir}
	for _, e := range ents {
		n := e.Name()
		if e.IsDir() || !strings.HasSuffix(n, ".go") || strings.HasSuffix(n, "_test.go") {
			continue
		}
		f, err := parser.ParseFile(im.fset, filepath.Join(dir, n), nil, parser.ParseComments)
		if err != nil {
			return nil, err
		}
		pi.files = append(pi.files, f)
		pi.names = append(pi.names, filepath.Join(dir, n))
	}
	if len(pi.files) == 0 {
		return nil, fmt.Errorf("no Go files in %s", dir)
	}
	pi.info = &types.Info{Types: map[ast.Expr]types.TypeAndValue{}, Defs: map[*ast.Ident]types.Object{}, Uses: map[*ast.Ident]types.Object{}, Selections: map[*ast.SelectorExpr]*types.Selection{}}
	conf := types.Config{Importer: im, Error: func(error) {}}
	path := modPath
	if rel != "" {
		path += "/" + rel
	}
	pkg, _ := conf.Check(path, im.fset, pi.files, pi.info)
	pi.pkg = pkg
	im.pkgs[rel] = pi
	return pi, nil
}

// Generate writes the overlay into outDir and returns its description.
func Generate(repo, outDir string) (*Result, error) {
	fset := token.NewFileSet()
	im := &imp{repo: repo, fset: fset, std: importer.ForCompiler(fset, "source", nil), pkgs: map[string]*pkgInfo{}}
	var rels []string
	filepath.Walk(repo, func(path string, info os.FileInfo, err error) error {
		if err != nil || !info.IsDir() {
			return nil
		}
		rel, _ := filepath.Rel(repo, path)
		if rel == "." {
			rel = ""
		}
		base := filepath.Base(path)
		if strings.HasPrefix(base, ".") && rel != "" || rel == "cmd" || strings.HasPrefix(rel, "cmd/") || rel == "docs" || strings.HasPrefix(rel, "docs/") || rel == "vm/generate" || rel == "verifseam" {
			if rel != "" {
				return filepath.SkipDir
			}
		}
		ents, _ := os.ReadDir(path)
		for _, e := range ents {
			if !e.IsDir() && strings.HasSuffix(e.Name(), ".go") && !strings.HasSuffix(e.Name(), "_test.go") {
				rels = append(rels, rel)
				break
			}
		}
		return nil
	})
	sort.Strings(rels)
	res := &Result{Globals: map[string][]string{}}
	replace := map[string]string{}
	os.MkdirAll(outDir, 0o755)
	for _, rel := range rels {
		pi, err := im.load(rel)
		if err != nil {
			return nil, err
		}
		// package-level variables
		if pi.pkg != nil {
			var vars []string
			scope := pi.pkg.Scope()
			for _, n := range scope.Names() {
				if v, ok := scope.Lookup(n).(*types.Var); ok && n != "_" {
					vars = append(vars, v.Name())
				}
			}
			sort.Strings(vars)
			res.Globals[rel] = vars
			var sb strings.Builder
			fmt.Fprintf(&sb, "//go:build verif\n\npackage %s\n\n// %s returns the address of every package-level variable (generated at check time).\nfunc %s() map[string]interface{} {\n\treturn map[string]interface{}{\n", pi.pkg.Name(), GlobalsFunc(pi.pkg.Name()), GlobalsFunc(pi.pkg.Name()))
			for _, v := range vars {
				fmt.Fprintf(&sb, "\t\t%q: &%s,\n", v, v)
			}
			sb.WriteString("\t}\n}\n")
			gf := filepath.Join(outDir, strings.ReplaceAll(rel, "/", "_")+"__zz_verif_globals.go")
			os.WriteFile(gf, []byte(sb.String()), 0o644)
			replace[filepath.Join(pi.dir, "zz_verif_globals.go")] = gf
		}
		// map iteration sites
		for fi, f := range pi.files {
			src, err := os.ReadFile(pi.names[fi])
			if err != nil {
				return nil, err
			}
			type edit struct {
				pos, end int
				text     string
			}
			var edits []edit
			relFile, _ := filepath.Rel(repo, pi.names[fi])
			qual := func(p *types.Package) string {
				if p == pi.pkg {
					return ""
				}
				return p.Name()
			}
			for _, d := range f.Decls {
				if fd, ok := d.(*ast.FuncDecl); ok && wantsPoint(rel, fd) {
					name := fd.Name.Name
					if fd.Recv != nil && len(fd.Recv.List) > 0 {
						rt := string(src[fset.Position(fd.Recv.List[0].Type.Pos()).Offset:fset.Position(fd.Recv.List[0].Type.End()).Offset])
						name = strings.TrimPrefix(rt, "*") + "." + name
					}
					at := fset.Position(fd.Body.Lbrace).Offset + 1
					edits = append(edits, edit{at, at, fmt.Sprintf("\nverifseam.Point(%q)\n", pi.pkg.Name()+"."+name)})
					res.Points++
				}
			}
			ast.Inspect(f, func(n ast.Node) bool {
				switch x := n.(type) {
				case *ast.RangeStmt:
					tv, ok := pi.info.Types[x.X]
					if !ok || tv.Type == nil {
						return true
					}
					mt, ok := tv.Type.Underlying().(*types.Map)
					if !ok {
						return true
					}
					line := fset.Position(x.Pos()).Line
					id := fmt.Sprintf("%s:%d", relFile, line)
					kt := types.TypeString(mt.Key(), qual)
					if strings.Contains(kt, "/") {
						res.Unseamed = append(res.Unseamed, id+" (key type "+kt+")")
						return true
					}
					tok := ":="
					if x.Tok == token.ASSIGN {
						tok = "="
					}
					xs := string(src[fset.Position(x.X.Pos()).Offset:fset.Position(x.X.End()).Offset])
					var hdr strings.Builder
					fmt.Fprintf(&hdr, "{\nverifM := %s\nfor _, verifK := range verifseam.Keys(%q, verifM) {\nverifKey := verifK.Interface().(%s)\n_ = verifKey\n", xs, id, kt)
					if k, ok := x.Key.(*ast.Ident); ok && k.Name != "_" {
						fmt.Fprintf(&hdr, "%s %s verifKey\n_ = %s\n", k.Name, tok, k.Name)
					}
					if x.Value != nil {
						if v, ok := x.Value.(*ast.Ident); ok && v.Name != "_" {
							fmt.Fprintf(&hdr, "%s %s verifM[verifKey]\n_ = %s\n", v.Name, tok, v.Name)
						}
					}
					// replace "for ... {" (up to and including the body's opening brace)
					edits = append(edits, edit{fset.Position(x.Pos()).Offset, fset.Position(x.Body.Lbrace).Offset + 1, hdr.String()})
					edits = append(edits, edit{fset.Position(x.End()).Offset, fset.Position(x.End()).Offset, "\n}\n"})
					res.Sites = append(res.Sites, Site{id, "range"})
				case *ast.CallExpr:
					sel, ok := x.Fun.(*ast.SelectorExpr)
					if !ok || sel.Sel.Name != "MapKeys" || len(x.Args) != 0 {
						return true
					}
					tv, ok := pi.info.Types[sel.X]
					if !ok || tv.Type == nil || tv.Type.String() != "reflect.Value" {
						return true
					}
					line := fset.Position(x.Pos()).Line
					id := fmt.Sprintf("%s:%d", relFile, line)
					edits = append(edits, edit{fset.Position(x.Pos()).Offset, fset.Position(x.Pos()).Offset, fmt.Sprintf("verifseam.SortValues(%q, ", id)})
					edits = append(edits, edit{fset.Position(x.End()).Offset, fset.Position(x.End()).Offset, ")"})
					res.Sites = append(res.Sites, Site{id, "MapKeys"})
				}
				return true
			})
			if len(edits) == 0 {
				continue
			}
			// import of the seam package right after the package clause
			pkgEnd := fset.Position(f.Name.End()).Offset
			edits = append(edits, edit{pkgEnd, pkgEnd, "\n\nimport verifseam \"" + modPath + "/verifseam\"\n"})
			sort.Slice(edits, func(i, j int) bool {
				if edits[i].pos != edits[j].pos {
					return edits[i].pos > edits[j].pos
				}
				return edits[i].end > edits[j].end
			})
			out := string(src)
			for _, e := range edits {
				out = out[:e.pos] + e.text + out[e.end:]
			}
			formatted, err := format.Source([]byte(out))
			if err != nil {
				res.Unseamed = append(res.Unseamed, relFile+" (rewrite does not parse: "+err.Error()+")")
				continue
			}
			of := filepath.Join(outDir, strings.ReplaceAll(relFile, "/", "_"))
			os.WriteFile(of, formatted, 0o644)
			replace[pi.names[fi]] = of
		}
	}
	// the virtual seam package
	sf := filepath.Join(outDir, "verifseam.go")
	os.WriteFile(sf, []byte(seamSource), 0o644)
	replace[filepath.Join(repo, "verifseam", "seam.go")] = sf
	b, _ := json.MarshalIndent(map[string]interface{}{"Replace": replace}, "", " ")
	res.OverlayFile = filepath.Join(outDir, "overlay.json")
	os.WriteFile(res.OverlayFile, b, 0o644)
	sort.Slice(res.Sites, func(i, j int) bool { return res.Sites[i].ID < res.Sites[j].ID })
	return res, nil
}

const seamSource = `// Package verifseam is a virtual package added through a build overlay at check time.
// Every map iteration of the library goes through it so that the explorer owns the order.
package verifseam

import (
	"fmt"
	"reflect"
	"sort"
)

// Visit is one iteration over a map.
type Visit struct {
	Site  string
	Visit int
	N     int
}

var (
	// Choose returns the permutation to apply to the canonically sorted keys (nil = identity).
	Choose func(site string, visit, n int) []int
	visits = map[string]int{}
	// Log records every iteration since the last Reset.
	Log []Visit
)

func Reset() {
	visits = map[string]int{}
	Log = nil
}

// PointHook is called at every injected scheduling point (entries of the methods and exported functions of the
// compile pipeline). The explorer installs it; nil means free running.
var PointHook func(id string)

func Point(id string) {
	if h := PointHook; h != nil {
		h(id)
	}
}

func Keys(site string, m interface{}) []reflect.Value {
	return order(site, reflect.ValueOf(m).MapKeys())
}

func SortValues(site string, keys []reflect.Value) []reflect.Value { return order(site, keys) }

func order(site string, keys []reflect.Value) []reflect.Value {
	sort.SliceStable(keys, func(i, j int) bool { return fmt.Sprint(keys[i]) < fmt.Sprint(keys[j]) })
	v := visits[site]
	visits[site]++
	Log = append(Log, Visit{site, v, len(keys)})
	if Choose != nil {
		if perm := Choose(site, v, len(keys)); perm != nil {
			out := make([]reflect.Value, len(keys))
			for i, p := range perm {
				out[i] = keys[p]
			}
			return out
		}
	}
	return keys
}
`

// GlobalsFunc is the name of the generated accessor of a package (unique per package,
// because some library packages dot-import others).
func GlobalsFunc(pkgName string) string {
	return "VerifGlobalsOf" + strings.ToUpper(pkgName[:1]) + pkgName[1:]
}
