// Package snap computes canonical deep hashes of arbitrary Go values through
// reflection, including unexported fields, without ever calling Interface().
package snap

import (
	"fmt"
	"hash/fnv"
	"math"
	"reflect"
	"sort"
	"strings"
)

type ptrKey struct {
	p uintptr
	t reflect.Type
}

type hasher struct {
	sb   strings.Builder
	seen map[ptrKey]int
	addr bool // include slice/map/pointer identity
	skip map[reflect.Type]bool
}

// StringSkip is String but values of the given types are rendered as "<skipped>".
func StringSkip(v interface{}, skip ...reflect.Type) string {
	h := &hasher{seen: map[ptrKey]int{}, skip: map[reflect.Type]bool{}}
	for _, t := range skip {
		h.skip[t] = true
	}
	h.walk(reflect.ValueOf(v), 0)
	return h.sb.String()
}

// String returns the canonical form of v (content only).
func String(v interface{}) string {
	h := &hasher{seen: map[ptrKey]int{}}
	h.walk(reflect.ValueOf(v), 0)
	return h.sb.String()
}

// StringAddr is like String but also records pointer identity of slices, maps
// and pointers, so that "equal content in another backing array" differs.
func StringAddr(v interface{}) string {
	h := &hasher{seen: map[ptrKey]int{}, addr: true}
	h.walk(reflect.ValueOf(v), 0)
	return h.sb.String()
}

// Value returns the canonical form of a reflect.Value.
func Value(v reflect.Value) string {
	h := &hasher{seen: map[ptrKey]int{}}
	h.walk(v, 0)
	return h.sb.String()
}

// Hash returns a 64-bit hash of the canonical form.
func Hash(v interface{}) uint64 {
	f := fnv.New64a()
	f.Write([]byte(String(v)))
	return f.Sum64()
}

func HashString(s string) uint64 {
	f := fnv.New64a()
	f.Write([]byte(s))
	return f.Sum64()
}

func (h *hasher) walk(v reflect.Value, depth int) {
	if depth > 200 {
		h.sb.WriteString("<deep>")
		return
	}
	if !v.IsValid() {
		h.sb.WriteString("<nil>")
		return
	}
	t := v.Type()
	if h.skip[t] {
		h.sb.WriteString("<skipped>")
		return
	}
	switch v.Kind() {
	case reflect.Bool:
		fmt.Fprintf(&h.sb, "%s(%v)", t, v.Bool())
	case reflect.Int, reflect.Int8, reflect.Int16, reflect.Int32, reflect.Int64:
		fmt.Fprintf(&h.sb, "%s(%d)", t, v.Int())
	case reflect.Uint, reflect.Uint8, reflect.Uint16, reflect.Uint32, reflect.Uint64, reflect.Uintptr:
		fmt.Fprintf(&h.sb, "%s(%d)", t, v.Uint())
	case reflect.Float32, reflect.Float64:
		fmt.Fprintf(&h.sb, "%s(%x)", t, math.Float64bits(v.Float()))
	case reflect.Complex64, reflect.Complex128:
		fmt.Fprintf(&h.sb, "%s(%v)", t, v.Complex())
	case reflect.String:
		fmt.Fprintf(&h.sb, "%s(%q)", t, v.String())
	case reflect.Func, reflect.Chan, reflect.UnsafePointer:
		if v.IsNil() {
			fmt.Fprintf(&h.sb, "%s(nil)", t)
		} else if v.Kind() == reflect.Func {
			fmt.Fprintf(&h.sb, "%s(code@%x)", t, v.Pointer())
		} else {
			fmt.Fprintf(&h.sb, "%s(chan)", t)
		}
	case reflect.Interface:
		if v.IsNil() {
			h.sb.WriteString("iface(nil)")
		} else {
			h.sb.WriteString("iface{")
			h.walk(v.Elem(), depth+1)
			h.sb.WriteString("}")
		}
	case reflect.Ptr:
		if v.IsNil() {
			fmt.Fprintf(&h.sb, "%s(nil)", t)
			return
		}
		if t == typeType {
			// *rtype: types are unique per address; do not walk runtime type data
			fmt.Fprintf(&h.sb, "rtype@%x", v.Pointer())
			return
		}
		k := ptrKey{v.Pointer(), t}
		if id, ok := h.seen[k]; ok {
			fmt.Fprintf(&h.sb, "&ref%d", id)
			return
		}
		h.seen[k] = len(h.seen)
		if h.addr {
			fmt.Fprintf(&h.sb, "@%x", v.Pointer())
		}
		h.sb.WriteString("&")
		h.walk(v.Elem(), depth+1)
	case reflect.Slice:
		if v.IsNil() {
			fmt.Fprintf(&h.sb, "%s(nil)", t)
			return
		}
		if h.addr {
			fmt.Fprintf(&h.sb, "@%x/%d", v.Pointer(), v.Cap())
		}
		if t.Elem().Kind() == reflect.Uint8 {
			fmt.Fprintf(&h.sb, "%s(%x)", t, v.Bytes())
			return
		}
		fmt.Fprintf(&h.sb, "%s[", t)
		for i := 0; i < v.Len(); i++ {
			h.walk(v.Index(i), depth+1)
			h.sb.WriteString(",")
		}
		h.sb.WriteString("]")
	case reflect.Array:
		fmt.Fprintf(&h.sb, "%s[", t)
		for i := 0; i < v.Len(); i++ {
			h.walk(v.Index(i), depth+1)
			h.sb.WriteString(",")
		}
		h.sb.WriteString("]")
	case reflect.Map:
		if v.IsNil() {
			fmt.Fprintf(&h.sb, "%s(nil)", t)
			return
		}
		if h.addr {
			fmt.Fprintf(&h.sb, "@%x", v.Pointer())
		}
		type kv struct{ k, v string }
		var ents []kv
		it := v.MapRange()
		for it.Next() {
			hk := &hasher{seen: h.seen, addr: h.addr, skip: h.skip}
			hk.walk(it.Key(), depth+1)
			hv := &hasher{seen: h.seen, addr: h.addr, skip: h.skip}
			hv.walk(it.Value(), depth+1)
			ents = append(ents, kv{hk.sb.String(), hv.sb.String()})
		}
		sort.Slice(ents, func(i, j int) bool { return ents[i].k < ents[j].k })
		fmt.Fprintf(&h.sb, "%s{", t)
		for _, e := range ents {
			h.sb.WriteString(e.k)
			h.sb.WriteString(":")
			h.sb.WriteString(e.v)
			h.sb.WriteString(",")
		}
		h.sb.WriteString("}")
	case reflect.Struct:
		fmt.Fprintf(&h.sb, "%s{", t)
		for i := 0; i < v.NumField(); i++ {
			h.sb.WriteString(t.Field(i).Name)
			h.sb.WriteString("=")
			h.walk(v.Field(i), depth+1)
			h.sb.WriteString(";")
		}
		h.sb.WriteString("}")
	default:
		fmt.Fprintf(&h.sb, "%s(?)", t)
	}
}

var typeType = reflect.TypeOf(reflect.TypeOf(0))
