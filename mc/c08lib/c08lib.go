// Package c08lib holds the scenario material shared by the controlled-scheduler
// check (C08) and the free-running race pass (cmd/racer): a race-free environment,
// a program set covering every constant kind, and solo results.
package c08lib

import (
	"fmt"

	"github.com/antonmedv/expr"
	"github.com/antonmedv/expr/vm"
)

type Obj struct {
	N    int
	Name string
}

func (o *Obj) Double() int { return 2 * o.N }

// Env is read-only during runs: its functions are pure and keep no log.
type Env struct {
	S, Pat string
	I      int
	A      []int
	Big    []int // 40 elements, not sorted
	M      map[string]int
	O      *Obj
	OS     []*Obj
}

func (Env) Twice(i int) int                    { return 2 * i }
func (Env) Join(a, b string) string            { return a + "/" + b }
func (Env) Fast(xs ...interface{}) interface{} { return len(xs) }

// Keep returns its argument list itself: a result that aliases whatever buffer the call was given.
func (Env) Keep(xs ...interface{}) interface{} { return xs }

// Profile is embedded by pointer in PtrEnv and left nil: reading a field promoted through it fails.
type Profile struct{ Nick string }

// PtrEnv is passed to runs by pointer, so its fields are addressable: a run must not store into it.
type PtrEnv struct {
	*Profile
	Name string
	Tags []string
}

func (e *PtrEnv) HasProfile() bool { return e.Profile != nil }

func EnvP() *PtrEnv { return &PtrEnv{Name: "bob", Tags: []string{"x"}} }

// PtrSources are run on the shared *PtrEnv.
var PtrSources = []string{`[HasProfile(), Name, Nick]`, `Name + Tags[0]`, `Nick`}

func big(seed int) []int {
	out := make([]int, 40)
	for i := range out {
		out[i] = (i*17 + seed) % 41
	}
	return out
}

func EnvA() Env {
	return Env{Big: big(3), S: "aXb", Pat: "^a", I: 2, A: []int{1, 2, 3, 4}, M: map[string]int{"a": 1}, O: &Obj{N: 3, Name: "o"}, OS: []*Obj{{N: 1}, {N: 2}}}
}
func EnvB() Env {
	return Env{Big: big(11), S: "bYa", Pat: "a$", I: 3, A: []int{4, 0}, M: map[string]int{"a": 5}, O: &Obj{N: 7, Name: "p"}, OS: []*Obj{{N: 5}}}
}

// Sources cover every kind of constant and run-time structure.
var Sources = []string{
	`S matches "^a.*b$"`,                                      // compiled regexp constant
	`I in [1, 2, 3] and [10, 20, 30, 40][I] > 0`,              // lookup-map constant, folded []int
	`Twice(I) + len(A) + O.Double()`,                          // call descriptors
	`count(filter(A, {# > 1}), {# < 4}) + len(map(OS, {.N}))`, // nested builtins with scopes
	`map(1..I, {# * 2})`,                                      // allocating ranges
	`S matches Pat`,                                           // dynamic pattern
	"len(A) > 0 ?\n A[10] :\n 0",                              // failing run on a multi-line source (error binding)
	`M["a"] + O.N + len(Join(S, "x"))`,                        // map, property, string constant
	`Fast(I, S, nil) == 3 and not (S contains "q")`,           // fast call
	`{a: I, b: [S, Pat]}.b[1] + S[1:2]`,                       // map/array literals, slicing
	`Keep(I, S, O.N)`,                                         // fast call whose result aliases its argument list
	`[len(5..1), I, len(3..2)]`,                               // folded empty ranges
	`[I in Big, Big[0], Big[1:3], 7 in Big]`,                  // membership in a long unsorted list, and its order
}

// Options are shared by concurrent Compile calls.
func Options(env interface{}) []expr.Option {
	return []expr.Option{expr.Env(env)}
}

// CompileAll compiles a fresh instance of every source.
func CompileAll(env interface{}) ([]*vm.Program, error) {
	var out []*vm.Program
	for _, s := range Sources {
		p, err := expr.Compile(s, Options(env)...)
		if err != nil {
			return nil, fmt.Errorf("%q: %v", s, err)
		}
		out = append(out, p)
	}
	for _, s := range PtrSources {
		p, err := expr.Compile(s, expr.Env(&PtrEnv{}))
		if err != nil {
			return nil, fmt.Errorf("%q: %v", s, err)
		}
		out = append(out, p)
	}
	return out, nil
}

// Source returns the text of program i of CompileAll.
func Source(i int) string {
	if i < len(Sources) {
		return Sources[i]
	}
	return PtrSources[i-len(Sources)]
}

// Result of one run in comparable form.
func Result(out interface{}, err error) string {
	if err != nil {
		return "ERROR " + err.Error()
	}
	return fmt.Sprintf("%#v", out)
}
