// Package guard turns a library run that never terminates or that allocates without
// bound into a reported violation instead of a dead checker process. Workers announce
// the case they are evaluating; a monitor goroutine watches heap size and progress.
package guard

import (
	"fmt"
	"os"
	"runtime/metrics"
	"sort"
	"strconv"
	"sync"
	"syscall"
	"time"

	"verif/mc/report"
)

type info struct {
	desc  string
	start time.Time
	cpu   time.Duration
}

var (
	mu     sync.Mutex
	slots  = map[int]*info{}
	active bool
)

func cpuTime() time.Duration {
	var ru syscall.Rusage
	syscall.Getrusage(syscall.RUSAGE_SELF, &ru)
	return time.Duration(ru.Utime.Nano() + ru.Stime.Nano())
}

// Enter announces that worker w starts evaluating the described case.
func Enter(w int, desc string) {
	if !active {
		return
	}
	mu.Lock()
	slots[w] = &info{desc: desc, start: time.Now()}
	mu.Unlock()
}

// Leave announces that worker w finished its case.
func Leave(w int) {
	if !active {
		return
	}
	mu.Lock()
	delete(slots, w)
	mu.Unlock()
}

func heapBytes() uint64 {
	s := []metrics.Sample{{Name: "/memory/classes/heap/objects:bytes"}}
	metrics.Read(s)
	if s[0].Value.Kind() == metrics.KindUint64 {
		return s[0].Value.Uint64()
	}
	return 0
}

// Start launches the monitor. A case that is stuck for more than hangAfter while the
// process burns CPU, or a heap above the limit, is reported as a violation of the
// property (kind "hang" / "memory-explosion") and the check exits.
func Start(r *report.Run) {
	limit := uint64(20) << 30
	if s := os.Getenv("VERIF_HEAP_LIMIT_GB"); s != "" {
		if n, err := strconv.Atoi(s); err == nil {
			limit = uint64(n) << 30
		}
	}
	hangAfter := 90 * time.Second
	active = true
	go func() {
		for {
			time.Sleep(250 * time.Millisecond)
			kind := ""
			if heapBytes() > limit {
				kind = "memory-explosion"
			}
			mu.Lock()
			var cur []*info
			for _, in := range slots {
				cur = append(cur, in)
			}
			mu.Unlock()
			sort.Slice(cur, func(i, j int) bool { return cur[i].start.Before(cur[j].start) })
			if kind == "" && len(cur) > 0 && time.Since(cur[0].start) > hangAfter {
				// only believe it if the process really was running meanwhile
				if cur[0].cpu == 0 {
					cur[0].cpu = cpuTime()
					cur[0].start = cur[0].start.Add(hangAfter / 2) // re-arm: measure CPU over the next half period
					continue
				}
				if cpuTime()-cur[0].cpu > 20*time.Second {
					kind = "hang"
				} else {
					cur[0].cpu = 0
				}
			}
			if kind == "" {
				continue
			}
			if len(cur) == 0 {
				cur = []*info{{desc: "(no case announced)"}}
			}
			var all []string
			for _, c := range cur {
				all = append(all, c.desc)
			}
			r.Report(report.Violation{Sub: "watchdog", Kind: kind, Witness: cur[0].desc, Order: -1,
				Detail: map[string]interface{}{"in_flight_cases_oldest_first": all, "heap_bytes": heapBytes(),
					"what": fmt.Sprintf("a run of the library did not terminate or allocated without bound (%s); the oldest in-flight case is the prime suspect", kind)}})
			r.Set("exhaustive", false)
			r.Set("aborted_by_watchdog", kind)
			r.Finish()
		}
	}()
}
