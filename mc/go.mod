module verif/mc

go 1.23

require github.com/antonmedv/expr v0.0.0

replace github.com/antonmedv/expr => /repo
