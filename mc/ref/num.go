// Package ref holds the reference models: the numeric promotion model (this file)
// and the tree-walking reference evaluator.
package ref

import (
	"fmt"
	"math"
	"reflect"
)

// Kinds in rank order: unsigned by width, signed by width, floats; platform-sized first.
var Kinds = []reflect.Kind{reflect.Uint, reflect.Uint8, reflect.Uint16, reflect.Uint32, reflect.Uint64,
	reflect.Int, reflect.Int8, reflect.Int16, reflect.Int32, reflect.Int64, reflect.Float32, reflect.Float64}

func Rank(k reflect.Kind) int {
	for i, kk := range Kinds {
		if kk == k {
			return i
		}
	}
	return -1
}

// Num is the model's number: a kind plus either integer bits (two's complement,
// extended to 64 bits according to the kind's signedness) or a float.
type Num struct {
	K reflect.Kind
	U uint64  // integer kinds
	F float64 // float kinds (float32 values are exactly representable)
}

func KindBits(k reflect.Kind) uint {
	switch k {
	case reflect.Int8, reflect.Uint8:
		return 8
	case reflect.Int16, reflect.Uint16:
		return 16
	case reflect.Int32, reflect.Uint32, reflect.Float32:
		return 32
	}
	return 64
}
func KindSigned(k reflect.Kind) bool {
	switch k {
	case reflect.Int, reflect.Int8, reflect.Int16, reflect.Int32, reflect.Int64:
		return true
	}
	return false
}
func KindFloat(k reflect.Kind) bool { return k == reflect.Float32 || k == reflect.Float64 }

// Wrap truncates bits to the width of k and re-extends.
func Wrap(k reflect.Kind, bits uint64) uint64 {
	w := KindBits(k)
	if w == 64 {
		return bits
	}
	bits &= (1 << w) - 1
	if KindSigned(k) && bits&(1<<(w-1)) != 0 {
		bits |= ^uint64(0) << w
	}
	return bits
}

func (n Num) Conv(k reflect.Kind) Num {
	if n.K == k {
		return n
	}
	if KindFloat(k) {
		var f float64
		if KindFloat(n.K) {
			f = n.F
		} else if KindSigned(n.K) {
			if k == reflect.Float32 {
				f = float64(float32(int64(n.U)))
			} else {
				f = float64(int64(n.U))
			}
		} else {
			if k == reflect.Float32 {
				f = float64(float32(n.U))
			} else {
				f = float64(n.U)
			}
		}
		if k == reflect.Float32 {
			f = float64(float32(f))
		}
		return Num{K: k, F: f}
	}
	if KindFloat(n.K) {
		panic("model: float to integer conversion is never needed by the promotion rule")
	}
	return Num{K: k, U: Wrap(k, n.U)}
}

func (n Num) ToFloat64() float64 {
	if KindFloat(n.K) {
		return n.F
	}
	if KindSigned(n.K) {
		return float64(int64(n.U))
	}
	return float64(n.U)
}

func (n Num) GoValue() interface{} {
	switch n.K {
	case reflect.Uint:
		return uint(n.U)
	case reflect.Uint8:
		return uint8(n.U)
	case reflect.Uint16:
		return uint16(n.U)
	case reflect.Uint32:
		return uint32(n.U)
	case reflect.Uint64:
		return uint64(n.U)
	case reflect.Int:
		return int(n.U)
	case reflect.Int8:
		return int8(n.U)
	case reflect.Int16:
		return int16(n.U)
	case reflect.Int32:
		return int32(n.U)
	case reflect.Int64:
		return int64(n.U)
	case reflect.Float32:
		return float32(n.F)
	case reflect.Float64:
		return n.F
	}
	panic("kind")
}

func FromGo(v interface{}) (Num, bool) {
	rv := reflect.ValueOf(v)
	switch rv.Kind() {
	case reflect.Uint, reflect.Uint8, reflect.Uint16, reflect.Uint32, reflect.Uint64:
		return Num{K: rv.Kind(), U: rv.Uint()}, true
	case reflect.Int, reflect.Int8, reflect.Int16, reflect.Int32, reflect.Int64:
		return Num{K: rv.Kind(), U: uint64(rv.Int())}, true
	case reflect.Float32, reflect.Float64:
		return Num{K: rv.Kind(), F: rv.Float()}, true
	}
	return Num{}, false
}

func (n Num) String() string {
	if KindFloat(n.K) {
		return fmt.Sprintf("%s(%v)", n.K, n.F)
	}
	if KindSigned(n.K) {
		return fmt.Sprintf("%s(%d)", n.K, int64(n.U))
	}
	return fmt.Sprintf("%s(%d)", n.K, n.U)
}

func NumEq(a, b Num) bool {
	if a.K != b.K {
		return false
	}
	if KindFloat(a.K) {
		return math.Float64bits(a.F) == math.Float64bits(b.F) || (math.IsNaN(a.F) && math.IsNaN(b.F))
	}
	return a.U == b.U
}

// Arith returns the expected result: either a number, a bool, or failure.
type Out struct {
	Fail   bool
	IsBool bool
	B      bool
	N      Num
}

func (o Out) String() string {
	if o.Fail {
		return "fail"
	}
	if o.IsBool {
		return fmt.Sprint(o.B)
	}
	return o.N.String()
}

func Arith(op string, a, b Num) Out {
	if op == "**" {
		return Out{N: Num{K: reflect.Float64, F: math.Pow(a.ToFloat64(), b.ToFloat64())}}
	}
	k := a.K
	if Rank(b.K) > Rank(a.K) {
		k = b.K
	}
	x, y := a.Conv(k), b.Conv(k)
	if KindFloat(k) {
		var f float64
		switch op {
		case "+":
			f = x.F + y.F
		case "-":
			f = x.F - y.F
		case "*":
			f = x.F * y.F
		case "/":
			f = x.F / y.F
		case "%":
			return Out{Fail: true}
		case "==":
			return Out{IsBool: true, B: x.F == y.F}
		case "!=":
			return Out{IsBool: true, B: x.F != y.F}
		case "<":
			return Out{IsBool: true, B: x.F < y.F}
		case "<=":
			return Out{IsBool: true, B: x.F <= y.F}
		case ">":
			return Out{IsBool: true, B: x.F > y.F}
		case ">=":
			return Out{IsBool: true, B: x.F >= y.F}
		}
		if k == reflect.Float32 {
			f = float64(float32(f))
		}
		return Out{N: Num{K: k, F: f}}
	}
	signed := KindSigned(k)
	less := func() bool {
		if signed {
			return int64(x.U) < int64(y.U)
		}
		return x.U < y.U
	}
	switch op {
	case "+":
		return Out{N: Num{K: k, U: Wrap(k, x.U+y.U)}}
	case "-":
		return Out{N: Num{K: k, U: Wrap(k, x.U-y.U)}}
	case "*":
		return Out{N: Num{K: k, U: Wrap(k, x.U*y.U)}}
	case "/", "%":
		if y.U == 0 {
			return Out{Fail: true}
		}
		var q, r uint64
		if signed {
			xi, yi := int64(x.U), int64(y.U)
			if yi == -1 { // avoid the hardware trap; Go defines min / -1 == min, min % -1 == 0
				q, r = uint64(-xi), 0
			} else {
				q, r = uint64(xi/yi), uint64(xi%yi)
			}
		} else {
			q, r = x.U/y.U, x.U%y.U
		}
		if op == "/" {
			return Out{N: Num{K: k, U: Wrap(k, q)}}
		}
		return Out{N: Num{K: k, U: Wrap(k, r)}}
	case "==":
		return Out{IsBool: true, B: x.U == y.U}
	case "!=":
		return Out{IsBool: true, B: x.U != y.U}
	case "<":
		return Out{IsBool: true, B: less()}
	case "<=":
		return Out{IsBool: true, B: less() || x.U == y.U}
	case ">":
		return Out{IsBool: true, B: !less() && x.U != y.U}
	case ">=":
		return Out{IsBool: true, B: !less()}
	}
	panic("op " + op)
}
