package ref

import (
	"fmt"
	"math"
	"reflect"
	"regexp"
	"strconv"
	"strings"

	"verif/mc/gen"
	"verif/mc/henv"
)

// Result of a reference evaluation.
type Result struct {
	Val      interface{}
	Failed   bool
	Why      string
	Alloc    int // number of collection elements created (arrays, maps, ranges, map/filter results)
	Log      string
	FailPath string // path ("." + child indices) of the node whose operation failed
}

type fail struct{ why string }

type evaluator struct {
	env   reflect.Value // *henv.Env
	hash  []interface{}
	alloc int
	path  []int // child indices from the root to the node being evaluated
}

// kid evaluates child i of e, tracking the path.
func (ev *evaluator) kid(e *gen.Expr, i int) interface{} {
	ev.path = append(ev.path, i)
	v := ev.eval(e.Kids[i])
	ev.path = ev.path[:len(ev.path)-1]
	return v
}

// Eval evaluates e in env (whose log receives the calls made).
func Eval(e *gen.Expr, env *henv.Env) (res Result) {
	ev := &evaluator{env: reflect.ValueOf(env)}
	defer func() {
		res.Alloc = ev.alloc
		res.Log = env.L.String()
		if r := recover(); r != nil {
			if f, ok := r.(fail); ok {
				res.Failed, res.Why, res.Val = true, f.why, nil
				for _, i := range ev.path {
					res.FailPath += "." + strconv.Itoa(i)
				}
				return
			}
			panic(r)
		}
	}()
	res.Val = ev.eval(e)
	return
}

func failf(format string, a ...interface{}) { panic(fail{fmt.Sprintf(format, a...)}) }

func isNilV(v interface{}) bool {
	if v == nil {
		return true
	}
	r := reflect.ValueOf(v)
	switch r.Kind() {
	case reflect.Chan, reflect.Func, reflect.Map, reflect.Ptr, reflect.Interface, reflect.Slice:
		return r.IsNil()
	}
	return false
}

func isSeq(v interface{}) bool {
	if v == nil {
		return false
	}
	k := reflect.ValueOf(v).Kind()
	return k == reflect.Slice || k == reflect.Array
}

// Equal is the reference equality.
func Equal(a, b interface{}) bool {
	na, aok := FromGo(a)
	nb, bok := FromGo(b)
	if aok && bok {
		return Arith("==", na, nb).B
	}
	if isNilV(a) && isNilV(b) {
		return true
	}
	if isNilV(a) != isNilV(b) {
		// a nil sequence equals an empty sequence element-wise
		if isSeq(a) && isSeq(b) {
			return reflect.ValueOf(a).Len() == reflect.ValueOf(b).Len()
		}
		return false
	}
	if isSeq(a) && isSeq(b) {
		va, vb := reflect.ValueOf(a), reflect.ValueOf(b)
		if va.Len() != vb.Len() {
			return false
		}
		for i := 0; i < va.Len(); i++ {
			if !Equal(va.Index(i).Interface(), vb.Index(i).Interface()) {
				return false
			}
		}
		return true
	}
	ra, rb := reflect.ValueOf(a), reflect.ValueOf(b)
	if ra.Kind() == reflect.String && rb.Kind() == reflect.String {
		return ra.String() == rb.String()
	}
	if ra.Kind() == reflect.Bool && rb.Kind() == reflect.Bool {
		return ra.Bool() == rb.Bool()
	}
	if ra.Kind() == reflect.Ptr && rb.Kind() == reflect.Ptr {
		return ra.Pointer() == rb.Pointer()
	}
	if ra.Kind() == reflect.Map && rb.Kind() == reflect.Map {
		return reflect.DeepEqual(a, b)
	}
	return false
}

func (ev *evaluator) member(name string) interface{} {
	f := ev.env.Elem().FieldByName(name)
	if !f.IsValid() {
		failf("no member %s", name)
	}
	return f.Interface()
}

func toBool(v interface{}) bool {
	b, ok := v.(bool)
	if !ok {
		failf("not a bool: %T", v)
	}
	return b
}

func toIntV(v interface{}) int {
	n, ok := FromGo(v)
	if !ok || KindFloat(n.K) {
		failf("not an integer: %T", v)
	}
	return int(n.U)
}

func toStr(v interface{}) string {
	r := reflect.ValueOf(v)
	if r.Kind() != reflect.String {
		failf("not a string: %T", v)
	}
	return r.String()
}

func (ev *evaluator) evalKids(e *gen.Expr, from int) []interface{} {
	out := make([]interface{}, 0, len(e.Kids))
	for i := from; i < len(e.Kids); i++ {
		out = append(out, ev.kid(e, i))
	}
	return out
}

// chainNilSafe: a postfix step is nil-safe if it or any earlier step of the same
// (unparenthesised) postfix chain was written with ?.
func chainNilSafe(e *gen.Expr) bool {
	for {
		switch e.R.Op {
		case "prop?", "method?":
			return true
		case "prop", "method", "index", "slice":
			e = e.Kids[0]
		default:
			return false
		}
	}
}

func (ev *evaluator) call(fn reflect.Value, name string, args []interface{}, argExprs []*gen.Expr) interface{} {
	if !fn.IsValid() || fn.Kind() != reflect.Func || fn.IsNil() {
		failf("no function %s", name)
	}
	ft := fn.Type()
	in := make([]reflect.Value, len(args))
	for i, a := range args {
		var pt reflect.Type
		if ft.IsVariadic() && i >= ft.NumIn()-1 {
			pt = ft.In(ft.NumIn() - 1).Elem()
		} else if i < ft.NumIn() {
			pt = ft.In(i)
		} else {
			failf("too many arguments")
		}
		if a == nil {
			if pt.Kind() != reflect.Interface {
				failf("nil passed for a parameter of type %s", pt)
			}
			in[i] = reflect.Zero(pt)
			continue
		}
		av := reflect.ValueOf(a)
		if !av.Type().AssignableTo(pt) {
			// an integer literal adopts the numeric kind of the parameter
			if argExprs != nil && isIntLiteral(argExprs[i]) && isNumKind(pt.Kind()) {
				av = av.Convert(pt)
			} else {
				failf("argument %d of %s: %s not assignable to %s", i, name, av.Type(), pt)
			}
		}
		in[i] = av
	}
	if !ft.IsVariadic() && len(args) != ft.NumIn() {
		failf("arity")
	}
	var out []reflect.Value
	func() {
		defer func() {
			if r := recover(); r != nil {
				if _, ok := r.(fail); ok {
					panic(r)
				}
				failf("call of %s panicked: %v", name, r)
			}
		}()
		out = fn.Call(in)
	}()
	return out[0].Interface()
}

func isNumKind(k reflect.Kind) bool { return Rank(k) >= 0 }

func isIntLiteral(e *gen.Expr) bool {
	switch e.R.Op {
	case "lit":
		return e.R.Out == gen.TInt
	case "un":
		return (e.R.Arg == "-" || e.R.Arg == "+") && isIntLiteral(e.Kids[0])
	}
	return false
}

func (ev *evaluator) eval(e *gen.Expr) interface{} {
	r := e.R
	switch r.Op {
	case "lit":
		return r.Extra
	case "var":
		return ev.member(r.Arg)
	case "un":
		v := ev.kid(e, 0)
		switch r.Arg {
		case "not", "!":
			return !toBool(v)
		case "+":
			if _, ok := FromGo(v); !ok {
				failf("unary + on %T", v)
			}
			return v
		case "-":
			n, ok := FromGo(v)
			if !ok {
				failf("unary - on %T", v)
			}
			if KindFloat(n.K) {
				return Num{K: n.K, F: -n.F}.GoValue()
			}
			return Num{K: n.K, U: Wrap(n.K, -n.U)}.GoValue()
		}
	case "bin":
		return ev.bin(e)
	case "cond":
		if toBool(ev.kid(e, 0)) {
			return ev.kid(e, 1)
		}
		return ev.kid(e, 2)
	case "call":
		args := ev.evalKids(e, 0)
		fn := ev.env.Elem().Addr().MethodByName(r.Arg)
		if !fn.IsValid() {
			fn = ev.env.Elem().FieldByName(r.Arg)
		}
		return ev.call(fn, r.Arg, args, e.Kids)
	case "method", "method?":
		recv := ev.kid(e, 0)
		args := ev.evalKids(e, 1)
		if isNilV(recv) && recv == nil {
			if chainNilSafe(e) {
				return nil
			}
			failf("method %s of nil", r.Arg)
		}
		fn := reflect.ValueOf(recv).MethodByName(r.Arg)
		return ev.call(fn, r.Arg, args, e.Kids[1:])
	case "prop", "prop?":
		recv := ev.kid(e, 0)
		return ev.prop(recv, r.Arg, chainNilSafe(e))
	case "hashprop":
		return ev.prop(ev.top(), r.Arg, false)
	case "hash":
		return ev.top()
	case "index":
		recv := ev.kid(e, 0)
		idx := ev.kid(e, 1)
		rv := reflect.ValueOf(recv)
		switch rv.Kind() {
		case reflect.Slice, reflect.Array:
			i := toIntV(idx)
			if i < 0 || i >= rv.Len() {
				failf("index %d out of range", i)
			}
			return rv.Index(i).Interface()
		case reflect.Map:
			if idx == nil || !reflect.TypeOf(idx).AssignableTo(rv.Type().Key()) {
				failf("bad map key %T", idx)
			}
			v := rv.MapIndex(reflect.ValueOf(idx))
			if !v.IsValid() {
				return reflect.Zero(rv.Type().Elem()).Interface()
			}
			return v.Interface()
		}
		failf("cannot index %T", recv)
	case "slice":
		recv := ev.kid(e, 0)
		var fromV, toV interface{}
		switch r.Arg {
		case "ft":
			fromV = ev.kid(e, 1)
			toV = ev.kid(e, 2)
		case "f":
			fromV = ev.kid(e, 1)
		case "t":
			toV = ev.kid(e, 1)
		}
		rv := reflect.ValueOf(recv)
		if k := rv.Kind(); k != reflect.Slice && k != reflect.Array && k != reflect.String {
			failf("cannot slice %T", recv)
		}
		n := rv.Len()
		from, to := 0, n
		if fromV != nil || r.Arg == "ft" || r.Arg == "f" {
			from = toIntV(fromV)
		}
		if toV != nil || r.Arg == "ft" || r.Arg == "t" {
			to = toIntV(toV)
		}
		if to > n {
			to = n
		}
		if from > to {
			from = to
		}
		if from < 0 || to < 0 {
			failf("negative slice bound")
		}
		return rv.Slice(from, to).Interface()
	case "len":
		v := ev.kid(e, 0)
		rv := reflect.ValueOf(v)
		switch rv.Kind() {
		case reflect.Slice, reflect.Array, reflect.Map, reflect.String:
			return rv.Len()
		}
		failf("len of %T", v)
	case "arr":
		out := make([]interface{}, len(e.Kids))
		for i := range e.Kids {
			out[i] = ev.kid(e, i)
		}
		ev.alloc += len(out)
		return out
	case "map":
		keys := strings.Split(r.Arg, ",")
		out := map[string]interface{}{}
		for i := range e.Kids {
			out[keys[i]] = ev.kid(e, i)
		}
		ev.alloc += len(e.Kids)
		return out
	case "mapc":
		out := map[string]interface{}{}
		k := 0
		n := 0
		for _, p := range strings.Split(r.Arg, ",") {
			if p == "*" {
				key := ev.kid(e, k).(string)
				out[key] = ev.kid(e, k+1)
				k += 2
			} else {
				out[p] = ev.kid(e, k)
				k++
			}
			n++
		}
		ev.alloc += n
		return out
	case "builtin":
		return ev.builtin(e)
	}
	panic("ref: unknown op " + r.Op + " " + r.Arg)
}

func (ev *evaluator) top() interface{} {
	if len(ev.hash) == 0 {
		failf("# outside closure")
	}
	return ev.hash[len(ev.hash)-1]
}

func (ev *evaluator) prop(recv interface{}, name string, nilsafe bool) interface{} {
	rv := reflect.ValueOf(recv)
	if recv == nil || (rv.Kind() == reflect.Ptr && rv.IsNil()) {
		if nilsafe {
			return nil
		}
		failf("property %s of nil", name)
	}
	if rv.Kind() == reflect.Ptr {
		rv = rv.Elem()
	}
	switch rv.Kind() {
	case reflect.Struct:
		f := rv.FieldByName(name)
		if !f.IsValid() {
			failf("no field %s", name)
		}
		return f.Interface()
	case reflect.Map:
		v := rv.MapIndex(reflect.ValueOf(name))
		if !v.IsValid() {
			return reflect.Zero(rv.Type().Elem()).Interface()
		}
		return v.Interface()
	}
	failf("property %s of %T", name, recv)
	return nil
}

func (ev *evaluator) builtin(e *gen.Expr) interface{} {
	arr := ev.kid(e, 0)
	rv := reflect.ValueOf(arr)
	if k := rv.Kind(); k != reflect.Slice && k != reflect.Array {
		failf("builtin over %T", arr)
	}
	n := rv.Len()
	body := func(i int) interface{} {
		ev.hash = append(ev.hash, rv.Index(i).Interface())
		defer func() { ev.hash = ev.hash[:len(ev.hash)-1] }()
		return ev.kid(e, 1)
	}
	switch e.R.Arg {
	case "all":
		for i := 0; i < n; i++ {
			if !toBool(body(i)) {
				return false
			}
		}
		return true
	case "none":
		for i := 0; i < n; i++ {
			if toBool(body(i)) {
				return false
			}
		}
		return true
	case "any":
		for i := 0; i < n; i++ {
			if toBool(body(i)) {
				return true
			}
		}
		return false
	case "one", "count":
		c := 0
		for i := 0; i < n; i++ {
			if toBool(body(i)) {
				c++
			}
		}
		if e.R.Arg == "one" {
			return c == 1
		}
		return c
	case "filter":
		out := []interface{}{}
		for i := 0; i < n; i++ {
			if toBool(body(i)) {
				out = append(out, rv.Index(i).Interface())
			}
		}
		ev.alloc += len(out)
		return out
	case "map":
		out := make([]interface{}, 0, n)
		for i := 0; i < n; i++ {
			out = append(out, body(i))
		}
		ev.alloc += len(out)
		return out
	}
	panic("ref: unknown builtin " + e.R.Arg)
}

func (ev *evaluator) bin(e *gen.Expr) interface{} {
	o := e.R.Arg
	switch o {
	case "and", "&&":
		if !toBool(ev.kid(e, 0)) {
			return false
		}
		return toBool(ev.kid(e, 1))
	case "or", "||":
		if toBool(ev.kid(e, 0)) {
			return true
		}
		return toBool(ev.kid(e, 1))
	}
	a := ev.kid(e, 0)
	b := ev.kid(e, 1)
	switch o {
	case "==":
		return Equal(a, b)
	case "!=":
		return !Equal(a, b)
	case "in", "not in":
		res := ev.in(a, b)
		if o == "not in" {
			return !res
		}
		return res
	case "..":
		lo, hi := toIntV(a), toIntV(b)
		size := hi - lo + 1
		if size < 0 {
			size = 0
		}
		ev.alloc += size
		out := make([]int, size)
		for i := range out {
			out[i] = lo + i
		}
		return out
	case "matches":
		re, err := regexp.Compile(toStr(b))
		if err != nil {
			failf("bad pattern")
		}
		return re.MatchString(toStr(a))
	case "contains":
		return strings.Contains(toStr(a), toStr(b))
	case "startsWith":
		return strings.HasPrefix(toStr(a), toStr(b))
	case "endsWith":
		return strings.HasSuffix(toStr(a), toStr(b))
	}
	na, aok := FromGo(a)
	nb, bok := FromGo(b)
	if aok && bok {
		out := Arith(o, na, nb)
		if out.Fail {
			failf("arithmetic failure %v %s %v", na, o, nb)
		}
		if out.IsBool {
			return out.B
		}
		return out.N.GoValue()
	}
	ra, rb := reflect.ValueOf(a), reflect.ValueOf(b)
	if a != nil && b != nil && ra.Kind() == reflect.String && rb.Kind() == reflect.String {
		x, y := ra.String(), rb.String()
		switch o {
		case "+":
			return x + y
		case "<":
			return x < y
		case "<=":
			return x <= y
		case ">":
			return x > y
		case ">=":
			return x >= y
		}
	}
	failf("operator %s on %T and %T", o, a, b)
	return nil
}

func (ev *evaluator) in(needle, hay interface{}) bool {
	if hay == nil {
		return false
	}
	rv := reflect.ValueOf(hay)
	switch rv.Kind() {
	case reflect.Slice, reflect.Array:
		for i := 0; i < rv.Len(); i++ {
			if Equal(rv.Index(i).Interface(), needle) {
				return true
			}
		}
		return false
	case reflect.Map:
		if needle == nil || !reflect.TypeOf(needle).AssignableTo(rv.Type().Key()) {
			failf("bad map key %T", needle)
		}
		return rv.MapIndex(reflect.ValueOf(needle)).IsValid()
	case reflect.Ptr:
		if rv.IsNil() {
			return false
		}
		return ev.in(needle, rv.Elem().Interface())
	case reflect.Struct:
		return rv.FieldByName(toStr(needle)).IsValid()
	}
	failf("in on %T", hay)
	return false
}

var _ = math.Pow

// HasConstDivZero reports whether e contains an integer division or modulo whose
// operands are constant integer expressions and whose divisor is zero (the one
// thing the optimizer may reject at compile time).
func HasConstDivZero(e *gen.Expr) bool {
	found := false
	e.Walk(func(x *gen.Expr) {
		if x.R.Op == "bin" && (x.R.Arg == "/" || x.R.Arg == "%") && constInt(x.Kids[0]) && constInt(x.Kids[1]) {
			r := Eval(x.Kids[1], henv.Make(henv.Val{}))
			if !r.Failed {
				if n, ok := FromGo(r.Val); ok && !KindFloat(n.K) && n.U == 0 {
					found = true
				}
			} else {
				found = true // the divisor itself divides by a constant zero
			}
		}
	})
	return found
}

func constInt(e *gen.Expr) bool {
	switch e.R.Op {
	case "lit":
		return e.R.Out == gen.TInt
	case "un":
		return (e.R.Arg == "-" || e.R.Arg == "+") && constInt(e.Kids[0])
	case "bin":
		switch e.R.Arg {
		case "+", "-", "*", "/", "%":
			return constInt(e.Kids[0]) && constInt(e.Kids[1])
		}
	}
	return false
}
