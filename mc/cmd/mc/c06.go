package main

import (
	"fmt"
	"reflect"
	"sort"
	"strings"
	"sync"
	"sync/atomic"

	"github.com/antonmedv/expr"
	"github.com/antonmedv/expr/vm"

	"verif/mc/gen"
	"verif/mc/guard"
	"verif/mc/henv"
	"verif/mc/lib"
	"verif/mc/par"
	"verif/mc/ref"
	"verif/mc/report"
	"verif/mc/vmstep"
)

// C06: the memory budget bounds what a run can allocate. Every expression of the
// allocating slice x run-time bounds x budgets 1..12 (and a boundary family at the
// default budget): the run must succeed iff the reference allocation count of the
// complete evaluation is below the budget.

type c06Case struct {
	e     *gen.Expr
	vals  []henv.Val
	need  []int  // reference allocation count per valuation
	rfail []bool // reference fails for a non-budget reason
	progs []*vm.Program
	names []string
}

type c06Fail struct {
	idx    int
	mode   lib.Mode
	kind   string
	budget int
	val    henv.Val
	need   int
}

var c06Budgets = []int{1, 2, 3, 4, 5, 6, 7, 8, 9, 10, 11, 12}

// c06Eval runs one case under the current vm.MemoryBudget and returns the failures.
func c06Eval(c *c06Case, idx int, modes []lib.Mode, budget int, runs *int64) []c06Fail {
	var out []c06Fail
	for mi, m := range modes {
		p := c.progs[mi]
		if p == nil {
			continue
		}
		for vi, v := range c.vals {
			env := henv.Make(v)
			_, err := lib.Run(p, m.RunEnv(env, c.names))
			atomic.AddInt64(runs, 1)
			kind := ""
			switch {
			case c.rfail[vi]:
				if err == nil {
					kind = "succeeds-where-evaluation-fails"
				}
			case c.need[vi] >= budget && err == nil:
				kind = "over-budget-run-succeeds"
			case c.need[vi] < budget && err != nil:
				kind = "under-budget-run-refused"
			}
			if kind != "" {
				out = append(out, c06Fail{idx: idx, mode: m, kind: kind, budget: budget, val: v, need: c.need[vi]})
			}
		}
	}
	return out
}

func c06Build(e *gen.Expr, modes []lib.Mode) *c06Case {
	c := &c06Case{e: e, vals: henv.Valuations(gen.Vars(e)), names: gen.Names(e)}
	for _, v := range c.vals {
		r := ref.Eval(e, henv.Make(v))
		c.need = append(c.need, r.Alloc)
		c.rfail = append(c.rfail, r.Failed)
	}
	src := e.String()
	for _, m := range modes {
		p, err := lib.Compile(src, m)
		if err != nil {
			p = nil
		}
		c.progs = append(c.progs, p)
	}
	return c
}

func init() { checks["C06"] = c06 }

func c06(r *report.Run) {
	saved := vm.MemoryBudget
	defer func() { vm.MemoryBudget = saved }()
	guard.Start(r)
	sl := sliceAlloc()
	maxN := sl.maxN[r.Tier]
	var cases []*c06Case
	var mu sync.Mutex
	levelDone := 0
	for n := 1; n <= maxN; n++ {
		for _, top := range sl.tops {
			sp := sl.g.Space(top, n)
			batch := make([]*c06Case, sp.Total)
			par.For(int(sp.Total), func(i int) { batch[i] = c06Build(sp.At(int64(i)), sl.modes) })
			cases = append(cases, batch...)
		}
		levelDone = n
	}
	var runs int64
	var fails []c06Fail
	needs := map[int]bool{}
	var crossing int64
	for _, c := range cases {
		lo, hi := 1<<30, -1
		for i, nd := range c.need {
			if !c.rfail[i] {
				needs[nd] = true
				if nd < lo {
					lo = nd
				}
				if nd > hi {
					hi = nd
				}
			}
		}
		if hi >= 1 && lo <= 12 {
			crossing++
		}
	}
	exhaustive := true
	for _, b := range c06Budgets {
		if r.OutOfTime() {
			exhaustive = false
			break
		}
		vm.MemoryBudget = b // barrier: all workers use one budget at a time
		par.ForW(len(cases), func(w, i int) {
			guard.Enter(w, cases[i].e.String())
			f := c06Eval(cases[i], i, sl.modes, b, &runs)
			guard.Leave(w)
			if len(f) > 0 {
				mu.Lock()
				fails = append(fails, f...)
				mu.Unlock()
			}
		})
	}
	// Wrapped family: a run is charged for what it has to create ONCE. For every collection-valued expression E
	// of <= 4 nodes needing a elements, `len(E) in 0..1` (and `not in`) has to create at most a + 2, so under the
	// budget a + 3 it must complete, whatever the optimizer does with the membership test.
	type wrapped struct {
		c     *c06Case
		progs [][]*vm.Program // per wrapper, per mode
	}
	wrappers := []string{"len(%s) in 0..1", "len(%s) not in 0..1", "len(%s) + 1 in 1..2"}
	var ws []*wrapped
	maxNeed := 0
	for _, c := range cases {
		if c.e.Size() > 4 || !(c.e.R.Out == gen.TIntArr || c.e.R.Out == gen.TAnyArr || c.e.R.Out == gen.TAnyMap) {
			continue
		}
		w := &wrapped{c: c}
		for _, f := range wrappers {
			var ps []*vm.Program
			for _, m := range sl.modes {
				p, err := lib.Compile(fmt.Sprintf(f, c.e.String()), m)
				if err != nil {
					p = nil
				}
				ps = append(ps, p)
			}
			w.progs = append(w.progs, ps)
		}
		for i, nd := range c.need {
			if !c.rfail[i] && nd > maxNeed {
				maxNeed = nd
			}
		}
		ws = append(ws, w)
	}
	var wrappedRuns int64
	for b := 3; b <= maxNeed+3; b++ {
		vm.MemoryBudget = b
		par.For(len(ws), func(i int) {
			w := ws[i]
			for vi, v := range w.c.vals {
				if w.c.rfail[vi] || w.c.need[vi]+3 != b {
					continue
				}
				for wi := range wrappers {
					for mi, m := range sl.modes {
						p := w.progs[wi][mi]
						if p == nil {
							continue
						}
						_, err := lib.Run(p, m.RunEnv(henv.Make(v), w.c.names))
						atomic.AddInt64(&wrappedRuns, 1)
						if err != nil && strings.Contains(err.Error(), "memory budget") {
							r.Report(report.Violation{Sub: m.String(), Kind: "charged-more-than-once", Witness: fmt.Sprintf(wrappers[wi], w.c.e.String()), Order: int64(1)<<40 + int64(i),
								Detail: map[string]interface{}{"budget": b, "env": v.Describe(), "elements_the_operand_creates": w.c.need[vi], "error": err.Error()}})
						}
					}
				}
			}
		})
	}
	runs += wrappedRuns
	r.Set("wrapped_membership_runs", wrappedRuns)
	// Extreme bounds: a range whose span does not fit an int is empty (its size wraps) and must neither be charged nor
	// credit the budget: what follows it is counted as usual.
	{
		vm.MemoryBudget = 100
		for i, src := range []string{"[len(Lo..Hi), len(1..N)]", "len(Lo..Hi) + len(1..N)", "[Lo..Hi, 1..N]", "len(1..N) + len(Lo..Hi)", "map(1..2, {len(Lo..Hi)})[0] + len(1..N)"} {
			for _, n := range []int{50, 97, 1000} {
				for _, opt := range []bool{true, false} {
					env := map[string]interface{}{"Lo": -9000000000000000000, "Hi": 9000000000000000000, "N": n}
					p, err := expr.Compile(src, expr.Env(env), expr.Optimize(opt))
					if err != nil {
						continue
					}
					_, rerr := lib.Run(p, env)
					runs++
					need := n // every source builds 1..N once; the other collections here hold at most 2 elements
					switch {
					case need+3 < 100 && rerr != nil && strings.Contains(rerr.Error(), "memory budget"):
						r.Report(report.Violation{Sub: "extreme-bounds", Kind: "under-budget-run-refused", Witness: src, Order: int64(1)<<41 + int64(i), Detail: map[string]interface{}{"N": n, "optimize": opt, "error": rerr.Error()}})
					case need >= 100 && rerr == nil:
						r.Report(report.Violation{Sub: "extreme-bounds", Kind: "over-budget-run-succeeds", Witness: src, Order: int64(1)<<41 + int64(i), Detail: map[string]interface{}{"N": n, "optimize": opt}})
					}
				}
			}
		}
	}
	// Sequential phase: shrink each failure (vm.MemoryBudget is a package variable).
	sort.Slice(fails, func(i, j int) bool {
		if fails[i].idx != fails[j].idx {
			return fails[i].idx < fails[j].idx
		}
		return fails[i].budget < fails[j].budget
	})
	seenFail := map[string]bool{}
	shrunk := 0
	for _, f := range fails {
		key := fmt.Sprintf("%d|%s|%s", f.idx, f.mode, f.kind)
		if seenFail[key] {
			continue
		}
		seenFail[key] = true
		e := cases[f.idx].e
		w := e
		if shrunk < 300 {
			shrunk++
			w = sl.g.Shrink(e, func(c *gen.Expr) bool {
				cc := c06Build(c, []lib.Mode{f.mode})
				for _, b := range c06Budgets {
					vm.MemoryBudget = b
					var n int64
					for _, x := range c06Eval(cc, 0, []lib.Mode{f.mode}, b, &n) {
						if x.kind == f.kind {
							return true
						}
					}
				}
				return false
			})
		}
		r.Report(report.Violation{Sub: f.mode.String(), Kind: f.kind, Witness: w.String(), Order: int64(f.idx),
			Detail: map[string]interface{}{"source": e.String(), "minimal_source": w.String(), "budget": f.budget, "env": f.val.Describe(),
				"reference_allocation_count": f.need}})
	}
	// Per-instruction invariant under the stepping seam (default budget): the allocation counter never
	// decreases, and across OpRange/OpArray/OpMap it grows by exactly the length of the collection left
	// on top of the stack; no other instruction changes it.
	vm.MemoryBudget = saved
	var stepRuns, stepSteps int64
	stepSkipped := ""
	if !vmstep.Available() {
		stepSkipped = "debug stepping seam not found"
	} else {
		limit := len(cases)
		if r.Tier == "quick" && limit > 4000 {
			limit = 4000
		}
		par.ForW(limit, func(w, i int) {
			c := cases[i]
			guard.Enter(w, "step "+c.e.String())
			defer guard.Leave(w)
			for mi, m := range sl.modes {
				p := c.progs[mi]
				if p == nil {
					continue
				}
				for _, v := range c.vals {
					st, err := vmstep.Start(p, m.RunEnv(henv.Make(v), c.names))
					if err != nil {
						return
					}
					atomic.AddInt64(&stepRuns, 1)
					mem, ok := st.Int("memory")
					if !ok {
						st.Finish()
						mu.Lock()
						stepSkipped = "VM has no int field named memory"
						mu.Unlock()
						return
					}
					ip := 0
					for {
						op := byte(255)
						if ip < len(p.Bytecode) {
							op = p.Bytecode[ip]
						}
						if !st.Step() {
							break
						}
						atomic.AddInt64(&stepSteps, 1)
						if st.IP >= len(p.Bytecode) {
							break // the VM is finishing: its fields may be touched concurrently
						}
						now, _ := st.Int("memory")
						delta := now - mem
						stack := st.VM.Stack()
						topLen := -1
						if len(stack) > 0 && stack[len(stack)-1] != nil {
							if rv := reflect.ValueOf(stack[len(stack)-1]); rv.Kind() == reflect.Slice || rv.Kind() == reflect.Map {
								topLen = rv.Len()
							}
						}
						bad := ""
						switch {
						case delta < 0:
							bad = "allocation-counter-decreases"
						case op == vm.OpRange || op == vm.OpArray || op == vm.OpMap:
							if delta != topLen {
								bad = "allocation-not-counted-exactly"
							}
						case delta != 0 && delta != topLen:
							bad = "counter-changes-without-allocation"
						}
						if bad != "" {
							st.Finish()
							r.Report(report.Violation{Sub: "step-invariant@" + m.String(), Kind: bad, Witness: fmt.Sprintf("opcode %d", op), Order: int64(i),
								Detail: map[string]interface{}{"source": c.e.String(), "env": v.Describe(), "ip": ip, "memory_before": mem, "memory_after": now, "len_of_top": topLen}})
							return
						}
						mem = now
						ip = st.IP
					}
					st.Finish()
				}
			}
		})
	}
	r.Set("step_invariant_runs", stepRuns)
	r.Set("step_invariant_instructions", stepSteps)
	if stepSkipped != "" {
		r.Set("step_invariant_skipped", stepSkipped)
	}
	// The same oracle on ONE long-lived VM value: earlier runs (their allocations, the budget in force when the
	// VM was first used) must not change whether a later run is refused.
	var reuseRuns int64
	{
		long := &vm.VM{}
		lim := len(cases)
		if lim > 1500 {
			lim = 1500
		}
		budgets := []int{10, 4, 12, 2, 7}
		step := 0
		for i := 0; i < lim; i++ {
			c := cases[i]
			if c.progs[1] == nil {
				continue
			}
			for vi, v := range c.vals {
				if c.rfail[vi] {
					continue
				}
				b := budgets[step%len(budgets)]
				step++
				vm.MemoryBudget = b
				_, err := func() (out interface{}, err error) {
					defer func() {
						if p := recover(); p != nil {
							err = fmt.Errorf("panic %v", p)
						}
					}()
					return long.Run(c.progs[1], sl.modes[1].RunEnv(henv.Make(v), c.names))
				}()
				reuseRuns++
				kind := ""
				if c.need[vi] >= b && err == nil {
					kind = "over-budget-run-succeeds"
				} else if c.need[vi] < b && err != nil {
					kind = "under-budget-run-refused"
				}
				if kind != "" {
					r.Report(report.Violation{Sub: "reused-vm", Kind: kind, Witness: "long-lived VM after earlier runs and budget changes", Order: int64(len(cases)) + reuseRuns,
						Detail: map[string]interface{}{"source": c.e.String(), "env": v.Describe(), "budget": b, "reference_allocation_count": c.need[vi], "runs_before_on_this_vm": reuseRuns - 1}})
					long = &vm.VM{} // continue with a fresh one so that one defect does not flood the report
				}
			}
		}
	}
	r.Set("reused_vm_runs", reuseRuns)
	// Boundary family at the default budget.
	vm.MemoryBudget = saved
	type benv struct{ N, M int }
	B := saved
	bcases := []struct {
		src  string
		n, m int
		need int
	}{}
	for _, d := range []int{-2, -1, 0, 1} {
		bcases = append(bcases,
			struct {
				src        string
				n, m, need int
			}{"1..N", B + d, 0, B + d},
			struct {
				src        string
				n, m, need int
			}{"[1..N, 1..M]", B/2 + d, B / 2, B/2 + d + B/2 + 2},
			struct {
				src        string
				n, m, need int
			}{"len(map(1..N, {#}))", (B + d) / 2, 0, 2 * ((B + d) / 2)},
			struct {
				src        string
				n, m, need int
			}{"[N..1, 1..M]", 5, B + d - 2, B + d},
		)
	}
	var bruns int64
	for _, bc := range bcases {
		for _, opt := range []bool{true, false} {
			p, err := expr.Compile(bc.src, expr.Env(benv{}), expr.Optimize(opt))
			if err != nil {
				continue
			}
			_, err = lib.Run(p, benv{N: bc.n, M: bc.m})
			bruns++
			kind := ""
			if bc.need >= B && err == nil {
				kind = "over-budget-run-succeeds"
			} else if bc.need < B && err != nil {
				kind = "under-budget-run-refused"
			}
			if kind != "" {
				r.Report(report.Violation{Sub: "default-budget", Kind: kind, Witness: bc.src, Order: int64(len(cases)) + bruns,
					Detail: map[string]interface{}{"N": bc.n, "M": bc.m, "budget": B, "reference_allocation_count": bc.need}})
			}
		}
	}
	r.Sample(map[string]interface{}{"expr": cases[len(cases)/2].e.String(), "valuations": len(cases[len(cases)/2].vals), "reference_allocation_counts": cases[len(cases)/2].need})
	r.Sample(map[string]interface{}{"expr": cases[len(cases)-1].e.String(), "reference_allocation_counts": cases[len(cases)-1].need})
	r.Set("expressions", int64(len(cases)))
	r.Set("evaluations", runs+bruns)
	r.Set("states", int64(len(cases)))
	r.Set("transitions", runs+bruns)
	r.Set("traces_validated_against_impl", runs+bruns)
	r.Set("distinct_nontrivial", crossing)
	r.Set("distinct_allocation_totals", int64(len(needs)))
	r.Set("budgets", c06Budgets)
	r.Set("node_budget_completed", levelDone)
	r.Set("default_budget_boundary_cases", bruns)
	r.Set("exhaustive", exhaustive)
	r.Set("rule", "every expression of the allocating slice (array/map literals of non-constant elements, run-time ranges ascending/empty/descending, map/filter results, nestings) with <= n nodes x all values of the bounds x budgets 1..12 x {opt, noopt, no env}; oracle: run succeeds iff reference allocation count < budget; distinct_nontrivial = expressions whose allocation totals over the value domain straddle the explored budgets")
	r.Assume("allocation count of the reference evaluator: sum of lengths of every array literal, map literal, run-time range (0 when descending), map and filter result created by the complete evaluation")
	r.Assume("vm.MemoryBudget is a package variable: budgets are iterated with a barrier between values")
	r.Assume("budget 0 is not explored (a run that allocates nothing succeeds although 0 < 0 is false; the property does not speak about it)")
}
