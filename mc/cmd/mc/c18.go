package main

import (
	"fmt"
	"reflect"
	"strings"
	"sync"
	"sync/atomic"

	"github.com/antonmedv/expr/vm"

	"verif/mc/gen"
	"verif/mc/guard"
	"verif/mc/henv"
	"verif/mc/lib"
	"verif/mc/par"
	"verif/mc/report"
)

// C18: collection builtins satisfy their defining identities (metamorphic oracle, no
// expected values): every array expression x every predicate/mapper over '#' up to a
// node budget, each identity evaluated as two programs and as one expression.

func c18Grammar() *gen.Grammar {
	T := gen.TBool
	rules := []*gen.Rule{
		gen.Var("A", gen.TIntArr), gen.Var("I", gen.TInt), gen.Var("J", gen.TInt),
		gen.Lit("1", gen.TInt, 1), gen.Lit("2", gen.TInt, 2), gen.Lit("0", gen.TInt, 0),
		gen.Hash(gen.TInt),
		gen.Bin("..", gen.TInt, gen.TInt, gen.TIntArr),
		gen.Builtin("filter", gen.TIntArr, T, gen.TIntArr), gen.Builtin("map", gen.TIntArr, gen.TInt, gen.TIntArr),
		gen.ArrAs(gen.TIntArr, gen.TInt, gen.TInt), gen.ArrAs(gen.TIntArr),
		gen.Bin(">", gen.TInt, gen.TInt, T), gen.Bin("==", gen.TInt, gen.TInt, T), gen.Bin("<=", gen.TInt, gen.TInt, T),
		gen.Bin("+", gen.TInt, gen.TInt, gen.TInt), gen.Bin("%", gen.TInt, gen.TInt, gen.TInt), gen.Bin("*", gen.TInt, gen.TInt, gen.TInt),
		gen.Un("not", T, T), gen.Bin("and", T, T, T), gen.Bin("or", T, T, T), gen.Lit("true", T, true), gen.Lit("false", T, false),
		gen.Bin("in", gen.TInt, gen.TIntArr, T),
		gen.Builtin("any", gen.TIntArr, T, T), gen.Builtin("all", gen.TIntArr, T, T), gen.Builtin("count", gen.TIntArr, T, gen.TInt),
		gen.Len(gen.TIntArr), gen.Index(gen.TIntArr, gen.TInt, gen.TInt),
		gen.Var("FA", gen.TFloatArr), gen.Lit("[0.0, 1.5]", gen.TFloatArr, []float64{0, 1.5}), gen.Lit("[0.5, 1.5, 3.0]", gen.TFloatArr, []float64{0.5, 1.5, 3}), gen.Lit("[2.0]", gen.TFloatArr, []float64{2}), gen.Hash(gen.TFloat), gen.Lit("1.5", gen.TFloat, 1.5), gen.Var("F", gen.TFloat),
		gen.Bin("<", gen.TFloat, gen.TFloat, T), gen.Bin(">=", gen.TFloat, gen.TFloat, T), gen.Bin("==", gen.TFloat, gen.TFloat, T),
		gen.Builtin("filter", gen.TFloatArr, T, gen.TFloatArr),
	}
	return gen.NewGrammar(rules)
}

func collect(g *gen.Grammar, ntt gen.NT, maxN int) []*gen.Expr {
	var out []*gen.Expr
	for n := 1; n <= maxN; n++ {
		out = append(out, g.Table(ntt, n)...)
	}
	return out
}

type c18Res struct {
	norm string
	val  interface{}
	fail bool
}

type c18Key struct {
	src  string
	mode lib.Mode
}

type c18Cache map[c18Key]interface{}

var c18NoCache c18Cache

func c18Run(src string, m lib.Mode, env *henv.Env, names []string, runs *int64) c18Res {
	return c18RunC(nil, src, m, env, names, runs)
}

func c18RunC(cache c18Cache, src string, m lib.Mode, env *henv.Env, names []string, runs *int64) c18Res {
	var p *vm.Program
	var err error
	if c, ok := cache[c18Key{src, m}]; ok {
		switch x := c.(type) {
		case *vm.Program:
			p = x
		case error:
			err = x
		}
	} else {
		p, err = lib.Compile(src, m)
		if cache != nil {
			if err != nil {
				cache[c18Key{src, m}] = err
			} else {
				cache[c18Key{src, m}] = p
			}
		}
	}
	if err != nil {
		return c18Res{fail: true, norm: "compile:" + err.Error()}
	}
	atomic.AddInt64(runs, 1)
	v, err := lib.Run(p, m.RunEnv(env, names))
	if err != nil {
		return c18Res{fail: true}
	}
	return c18Res{norm: henv.Norm(v), val: v}
}

type c18Identity struct {
	name            string
	lhs, rhs        string // templates over XS, P, F, YS
	needsF          bool
	lhsMayFailAlone bool
	rhsMayFailAlone bool // the left side stops at the first satisfying element, the right side evaluates the predicate on every element
}

var c18Identities = []c18Identity{
	{name: "all=not-any-not", lhs: "all(§X§, {§P§})", rhs: "not any(§X§, {not (§P§)})"},
	{name: "none=not-any", lhs: "none(§X§, {§P§})", rhs: "not any(§X§, {§P§})"},
	{name: "one=count-eq-1", lhs: "one(§X§, {§P§})", rhs: "count(§X§, {§P§}) == 1"},
	{name: "count=len-filter", lhs: "count(§X§, {§P§})", rhs: "len(filter(§X§, {§P§}))"},
	{name: "len-map=len", lhs: "len(map(§X§, {§F§}))", rhs: "len(§X§)", needsF: true, lhsMayFailAlone: true},
	{name: "any=count-gt-0", lhs: "any(§X§, {§P§})", rhs: "count(§X§, {§P§}) > 0", rhsMayFailAlone: true},
	{name: "filter-filter", lhs: "filter(filter(§X§, {§P§}), {§P§})", rhs: "filter(§X§, {§P§})"},
}

func subst(t, xs, p, f string) string {
	t = strings.ReplaceAll(t, "§X§", xs)
	t = strings.ReplaceAll(t, "§P§", p)
	t = strings.ReplaceAll(t, "§F§", f)
	return t
}

func init() { checks["C18"] = c18 }

func c18(r *report.Run) {
	guard.Start(r)
	g := c18Grammar()
	nx, np := 4, 4
	if r.Tier == "thorough" {
		nx, np = 4, 5
	}
	xss := collect(g, gen.NT{T: gen.TIntArr, Elem: gen.TNone}, nx)
	for _, e := range g.Table(gen.NT{T: gen.TIntArr, Elem: gen.TNone}, nx+1) {
		if e.R.Op == "builtin" && e.Kids[0].Size() == 1 && (r.Tier == "thorough" || len(gen.Vars(e)) == 1 && strings.Contains(e.String(), "#")) {
			xss = append(xss, e) // filter/map over a member with a 3-node closure
		}
	}
	// nested context: the collection operand is the element of an outer closure
	hashArr := &gen.Expr{R: &gen.Rule{Op: "nested-hash", Arg: "#", Out: gen.TIntArr, Atom: true, Fmt: "#"}}
	xss = append(xss, hashArr)
	ps := collect(g, gen.NT{T: gen.TBool, Elem: gen.TInt}, np)
	if r.Tier == "quick" {
		// quick: predicates that look at the element (or are tiny); the thorough tier takes all of them
		var keep []*gen.Expr
		for _, p := range ps {
			if p.Size() <= 3 || strings.Contains(p.String(), "#") {
				keep = append(keep, p)
			}
		}
		ps = keep
	}
	// float arrays (with a NaN element) and predicates over a float '#'
	fxs := collect(g, gen.NT{T: gen.TFloatArr, Elem: gen.TNone}, 1)
	fps := collect(g, gen.NT{T: gen.TBool, Elem: gen.TFloat}, np)
	nInt := len(xss)
	fs := collect(g, gen.NT{T: gen.TInt, Elem: gen.TInt}, 3)
	modes := []lib.Mode{{Env: "struct", Opt: true}, {Env: "struct", Opt: false}, {Env: "noenv", Opt: true}}
	var runs, cases int64
	var mu sync.Mutex
	outcomes := map[string]bool{}
	report1 := func(order int64, id, mode, kind, lhs, rhs string, v henv.Val, what string, xs, p string) {
		// witness: identity + predicate + array (already smallest-first by enumeration order)
		r.Report(report.Violation{Sub: id + "@" + mode, Kind: kind, Witness: "xs=" + xs + " p=" + p, Order: order,
			Detail: map[string]interface{}{"lhs": lhs, "rhs": rhs, "env": v.Describe(), "what": what}})
	}
	exhaustive := true
	type pair struct {
		x, p  *gen.Expr
		float bool
	}
	var pairs []pair
	for _, x := range xss {
		for _, p := range ps {
			pairs = append(pairs, pair{x, p, false})
		}
	}
	for _, x := range fxs {
		for _, p := range fps {
			pairs = append(pairs, pair{x, p, true})
		}
	}
	_ = nInt
	total := len(pairs)
	// blocks, so that the wall-clock budget can stop the run BETWEEN blocks (a block that started is finished)
	const block = 4000
	pairsDone := 0
	for lo := 0; lo < total; lo += block {
		if r.OutOfTime() {
			exhaustive = false
			break
		}
		hi := lo + block
		if hi > total {
			hi = total
		}
		par.ForW(hi-lo, func(w, kk int) {
			k := lo + kk
			xe, pe := pairs[k].x, pairs[k].p
			isFloat := pairs[k].float
			xs, p := xe.String(), pe.String()
			fe := fs[k%len(fs)]
			f := fe.String()
			nested := xe.R.Op == "nested-hash"
			guard.Enter(w, "xs="+xs+" p="+p)
			defer guard.Leave(w)
			varSet := map[string]bool{}
			var vars []string
			for _, e := range []*gen.Expr{xe, pe, fe} {
				for _, v := range gen.Vars(e) {
					if !varSet[v] {
						varSet[v] = true
						vars = append(vars, v)
					}
				}
			}
			if nested {
				vars = append(vars, "NN")
			}
			names := append([]string{}, vars...)
			names = append(names, "A2")
			vals := henv.Valuations(vars)
			atomic.AddInt64(&cases, 1)
			order := int64(k)
			cache := c18Cache{}
			c18Run := func(src string, m lib.Mode, env *henv.Env, names []string, runs *int64) c18Res {
				return c18RunC(cache, src, m, env, names, runs)
			}
			for _, m := range modes {
				for _, v := range vals {
					for _, id := range c18Identities {
						lhs, rhs := subst(id.lhs, xs, p, f), subst(id.rhs, xs, p, f)
						if nested {
							lhs, rhs = "map(NN, {"+lhs+"})", "map(NN, {"+rhs+"})"
						}
						a := c18Run(lhs, m, henv.Make(v), names, &runs)
						b := c18Run(rhs, m, henv.Make(v), names, &runs)
						if strings.HasPrefix(a.norm, "compile:") || strings.HasPrefix(b.norm, "compile:") {
							if strings.HasPrefix(a.norm, "compile:") != strings.HasPrefix(b.norm, "compile:") && !(id.lhsMayFailAlone && strings.HasPrefix(a.norm, "compile:")) {
								report1(order, id.name, m.String(), "one-side-rejected", lhs, rhs, v, a.norm+" / "+b.norm, xs, p)
							}
							continue
						}
						switch {
						case a.fail != b.fail && !(id.lhsMayFailAlone && a.fail) && !(id.rhsMayFailAlone && b.fail && a.norm == "true"):
							report1(order, id.name, m.String(), "failure-differs", lhs, rhs, v, fmt.Sprintf("lhs failed=%v rhs failed=%v", a.fail, b.fail), xs, p)
						case !a.fail && !b.fail && a.norm != b.norm:
							report1(order, id.name, m.String(), "value", lhs, rhs, v, a.norm+" != "+b.norm, xs, p)
						}
						// the identity as ONE expression must evaluate to true
						if !id.lhsMayFailAlone && !isFloat { // NaN is not equal to itself: the '==' form is meaningless for float arrays
							one := c18Run("("+lhs+") == ("+rhs+")", m, henv.Make(v), names, &runs)
							if !one.fail && one.norm != "true" && !a.fail {
								report1(order, id.name, m.String(), "single-expression-false", lhs, rhs, v, one.norm, xs, p)
							}
						}
						if !a.fail {
							mu.Lock()
							if len(outcomes) < 100000 {
								outcomes[id.name+a.norm] = true
							}
							mu.Unlock()
						}
					}
					if nested || isFloat {
						continue
					}
					// filter keeps exactly the satisfying elements, in order (per-element runs of the predicate)
					xv := c18Run(xs, m, henv.Make(v), names, &runs)
					fv := c18Run("filter("+xs+", {"+p+"})", m, henv.Make(v), names, &runs)
					if !xv.fail && !strings.HasPrefix(xv.norm, "compile:") && !strings.HasPrefix(fv.norm, "compile:") {
						rv := reflect.ValueOf(xv.val)
						var keep []interface{}
						anyFail := false
						for i := 0; i < rv.Len(); i++ {
							el := rv.Index(i).Interface()
							n, ok := el.(int)
							if !ok {
								anyFail = true
								break
							}
							env := henv.Make(v)
							env.A2 = []int{n}
							pr := c18Run("all(A2, {"+p+"})", m, env, names, &runs)
							if pr.fail {
								anyFail = true
								break
							}
							if pr.norm == "true" {
								keep = append(keep, n)
							}
						}
						if anyFail != fv.fail {
							report1(order, "filter-elementwise", m.String(), "failure-differs", "filter("+xs+", {"+p+"})", "per-element", v, fmt.Sprintf("filter failed=%v, some per-element predicate failed=%v", fv.fail, anyFail), xs, p)
						} else if !fv.fail && henv.Norm(keep) != fv.norm && !(len(keep) == 0 && fv.norm == "[]") {
							report1(order, "filter-elementwise", m.String(), "value", "filter("+xs+", {"+p+"})", "per-element", v, fv.norm+" != "+henv.Norm(keep), xs, p)
						}
					}
					// innermost-# law: an inner builtin whose predicate does not mention the outer element
					if xv.fail {
						continue
					}
					inner := "any(A, {" + p + "})"
					l := c18Run("count("+xs+", {"+inner+"})", m, henv.Make(v), append(names, "A"), &runs)
					rr := c18Run("("+inner+") ? len("+xs+") : 0", m, henv.Make(v), append(names, "A"), &runs)
					if l.fail && !rr.fail && !strings.HasPrefix(l.norm, "compile:") {
						report1(order, "innermost-hash", m.String(), "failure-differs", "count("+xs+", {"+inner+"})", "("+inner+") ? len("+xs+") : 0", v, "left side fails, right side gives "+rr.norm, xs, p)
					}
					if !l.fail && !rr.fail && l.norm != rr.norm && !strings.HasPrefix(l.norm, "compile:") && !strings.HasPrefix(rr.norm, "compile:") {
						report1(order, "innermost-hash", m.String(), "value", "count("+xs+", {"+inner+"})", "("+inner+") ? len("+xs+") : 0", v, l.norm+" != "+rr.norm, xs, p)
					}
				}
			}
		})
		pairsDone = hi
	}
	r.Set("array_predicate_pairs_completed", pairsDone)
	r.Set("array_predicate_pairs_total", total)
	// membership in an integer range == two-sided comparison; slicing partitions a sequence
	var extra int64
	ints := []string{"I", "J", "0", "1", "3", "-1", "2"}
	xsIn := append([]string{"U8", "I8", "I64", "U"}, ints...)
	order := int64(total)
	for _, m := range modes {
		for _, x := range xsIn {
			for _, a := range ints {
				for _, b := range ints {
					vars := []string{}
					for _, s := range []string{x, a, b} {
						if _, isVar := henv.Domains[s]; isVar && !strings.Contains(","+strings.Join(vars, ",")+",", ","+s+",") {
							vars = append(vars, s)
						}
					}
					for _, v := range henv.Valuations(vars) {
						order++
						lhs := fmt.Sprintf("%s in %s..%s", x, a, b)
						rhs := fmt.Sprintf("%s >= %s and %s <= %s", x, a, x, b)
						l := c18Run(lhs, m, henv.Make(v), vars, &extra)
						rr := c18Run(rhs, m, henv.Make(v), vars, &extra)
						if l.fail != rr.fail || l.norm != rr.norm {
							report1(order, "in-range=comparison", m.String(), "value", lhs, rhs, v, l.norm+" != "+rr.norm, a+".."+b, x)
						}
						for _, form := range [][2]string{
							{fmt.Sprintf("%s not in %s..%s", x, a, b), fmt.Sprintf("not (%s >= %s and %s <= %s)", x, a, x, b)},
							{fmt.Sprintf("count([%s, %s], {# not in %s..%s})", x, x, a, b), fmt.Sprintf("count([%s, %s], {not (# >= %s and # <= %s)})", x, x, a, b)},
							{fmt.Sprintf("filter([%s], {# in %s..%s})", x, a, b), fmt.Sprintf("filter([%s], {# >= %s and # <= %s})", x, a, b)},
						} {
							l := c18Run(form[0], m, henv.Make(v), vars, &extra)
							rr := c18Run(form[1], m, henv.Make(v), vars, &extra)
							if l.fail != rr.fail || l.norm != rr.norm {
								report1(order, "not-in-range=negated-comparison", m.String(), "value", form[0], form[1], v, l.norm+" != "+rr.norm, a+".."+b, x)
							}
						}
					}
				}
			}
		}
		// membership in a range is membership in its elements, for every operand (floats and dynamically typed sums
		// included); the length of a range follows from its bounds
		for _, x := range []string{"I", "F", "F + 1", "I + F", "I + 1", "-I", "I * 2", "F * 2", "I + 0.5", "I8", "I8 + I"} {
			for _, a := range []string{"0", "1", "3", "-1", "J"} {
				for _, b := range []string{"0", "1", "3", "-1", "2"} {
					vars := []string{}
					for _, nm := range []string{"I8", "I", "F", "J"} {
						if strings.Contains(strings.ReplaceAll(x+" "+a, "I8", "#8"), nm) || (nm == "I8" && strings.Contains(x, "I8")) {
							vars = append(vars, nm)
						}
					}
					for _, v := range henv.Valuations(vars) {
						order++
						for _, form := range [][2]string{
							{fmt.Sprintf("(%s) in %s..%s", x, a, b), fmt.Sprintf("any(%s..%s, {# == %s})", a, b, x)},
							{fmt.Sprintf("(%s) not in %s..%s", x, a, b), fmt.Sprintf("none(%s..%s, {# == %s})", a, b, x)},
							{fmt.Sprintf("len(%s..%s)", a, b), fmt.Sprintf("%s >= %s ? %s - %s + 1 : 0", b, a, b, a)},
							{fmt.Sprintf("count(%s..%s, {true})", a, b), fmt.Sprintf("%s >= %s ? %s - %s + 1 : 0", b, a, b, a)},
						} {
							l := c18Run(form[0], m, henv.Make(v), vars, &extra)
							rr := c18Run(form[1], m, henv.Make(v), vars, &extra)
							if strings.HasPrefix(l.norm, "compile:") || strings.HasPrefix(rr.norm, "compile:") {
								continue
							}
							if l.fail != rr.fail || l.norm != rr.norm {
								report1(order, "range-membership=element-equality", m.String(), "value", form[0], form[1], v, fmt.Sprintf("%s (failed=%v) != %s (failed=%v)", l.norm, l.fail, rr.norm, rr.fail), a+".."+b, x)
							}
						}
					}
				}
			}
		}
		// a collection created inside a closure does not disturb the collection being iterated
		for _, xe := range xss {
			if xe.R.Op == "nested-hash" || xe.Size() > 3 {
				continue
			}
			xs := xe.String()
			for _, ys := range []string{"0..#", "J..#", "#..I", "[#, 1]", "filter(0..#, {# > 1})", "map(J..#, {# + 1})", "1..2", "J..I"} {
				vars := append([]string{}, gen.Vars(xe)...)
				for _, nm := range []string{"I", "J"} {
					if strings.Contains(ys, nm) && !strings.Contains(","+strings.Join(vars, ",")+",", ","+nm+",") {
						vars = append(vars, nm)
					}
				}
				for _, v := range henv.Valuations(vars) {
					order++
					for _, form := range [][2]string{
						{"map(" + xs + ", {len(" + ys + ") >= 0 ? # : 0 - 1})", "map(" + xs + ", {#})"},
						{"filter(" + xs + ", {len(" + ys + ") >= 0})", "filter(" + xs + ", {true})"},
						{"count(" + xs + ", {any(" + ys + ", {# < 0 - 9}) or # == #})", "len(" + xs + ")"},
					} {
						l := c18Run(form[0], m, henv.Make(v), vars, &extra)
						rr := c18Run(form[1], m, henv.Make(v), vars, &extra)
						if rr.fail || strings.HasPrefix(l.norm, "compile:") || strings.HasPrefix(rr.norm, "compile:") {
							continue
						}
						if l.fail || l.norm != rr.norm {
							report1(order, "inner-collection-leaves-outer-alone", m.String(), "value", form[0], form[1], v, fmt.Sprintf("%s (failed=%v) != %s", l.norm, l.fail, rr.norm), xs, ys)
						}
					}
				}
			}
		}
		for _, xs := range []string{"A", "1..I", "[I, 1, 2]", "filter(A, {# > 1})", "S", "NN[:1][0]", "NN[0:2][1]", "NN[1:][2]", "OS[:1][0].Name", "map(NN, {#[1:]})[0]", `"héllo"`, `"日本語x"`, `S + "é😀"`} {
			for _, i := range []string{"-1", "0", "1", "2", "3", "4", "5", "J"} {
				vars := []string{}
				for _, nm := range []string{"A", "I", "S", "J", "NN", "OS"} {
					if strings.Contains(strings.ReplaceAll(xs, "OS", "")+" "+i, nm) || (nm == "OS" && strings.Contains(xs, "OS")) {
						vars = append(vars, nm)
					}
				}
				for _, v := range henv.Valuations(vars) {
					order++
					whole := c18Run(xs, m, henv.Make(v), vars, &extra)
					lo := c18Run("("+xs+")[:"+i+"]", m, henv.Make(v), vars, &extra)
					hi := c18Run("("+xs+")["+i+":]", m, henv.Make(v), vars, &extra)
					if !strings.ContainsAny(xs, " (\"") && !strings.Contains(xs, "..") {
						// a postfix chain: the slice continues the chain without parentheses, and must mean the same
						for _, pair := range [][2]string{{"(" + xs + ")[:" + i + "]", xs + "[:" + i + "]"}, {"(" + xs + ")[" + i + ":]", xs + "[" + i + ":]"}, {"(" + xs + ")[:]", xs + "[:]"}, {"(" + xs + ")[" + i + ":][:1]", xs + "[" + i + ":][:1]"}} {
							a := c18Run(pair[0], m, henv.Make(v), vars, &extra)
							b := c18Run(pair[1], m, henv.Make(v), vars, &extra)
							if a.fail != b.fail || a.norm != b.norm {
								report1(order, "slice-chain=parenthesised", m.String(), "value", pair[0], pair[1], v, fmt.Sprintf("%s (failed=%v) != %s (failed=%v)", a.norm, a.fail, b.norm, b.fail), xs, i)
							}
						}
					}
					if whole.fail {
						continue
					}
					if lo.fail != hi.fail {
						report1(order, "slice-partition", m.String(), "failure-differs", "("+xs+")[:"+i+"]", "("+xs+")["+i+":]", v, fmt.Sprintf("[:i] failed=%v [i:] failed=%v", lo.fail, hi.fail), xs, i)
						continue
					}
					if lo.fail {
						continue
					}
					var joined string
					if s, ok := whole.val.(string); ok {
						joined = henv.Norm(lo.val.(string) + hi.val.(string))
						_ = s
					} else {
						var cat []interface{}
						for _, part := range []interface{}{lo.val, hi.val} {
							pv := reflect.ValueOf(part)
							for k := 0; k < pv.Len(); k++ {
								cat = append(cat, pv.Index(k).Interface())
							}
						}
						joined = henv.Norm(cat)
						if len(cat) == 0 {
							joined = "[]"
						}
					}
					if joined != whole.norm {
						report1(order, "slice-partition", m.String(), "value", "("+xs+")[:"+i+"] ++ ("+xs+")["+i+":]", xs, v, joined+" != "+whole.norm, xs, i)
					}
				}
			}
		}
	}
	r.Sample(map[string]interface{}{"xs": xss[len(xss)/2].String(), "p": ps[len(ps)/2].String(), "identity": "all(XS,{P}) == not any(XS,{not (P)})"})
	r.Sample(map[string]interface{}{"xs": xss[len(xss)-1].String(), "p": ps[len(ps)-1].String(), "identity": "count(XS,{P}) == len(filter(XS,{P}))"})
	r.Set("array_expressions", len(xss))
	r.Set("predicates", len(ps))
	r.Set("float_array_pairs", len(fxs)*len(fps))
	r.Set("mappers", len(fs))
	r.Set("identities", len(c18Identities)+4)
	r.Set("evaluations", runs+extra)
	r.Set("states", cases)
	r.Set("transitions", runs+extra)
	r.Set("traces_validated_against_impl", runs+extra)
	r.Set("distinct_nontrivial", int64(len(outcomes)))
	r.Set("exhaustive", exhaustive)
	r.Set("rule", "all array expressions (members, ranges, literals, filter/map results; <= nx nodes) x all predicates over '#' (<= np nodes, including predicates that contain builtins over other arrays) x all values x {opt, noopt, no env}; each identity run as two programs and as one '==' expression; filter checked element-wise; innermost-'#' law; in-range vs comparison over an integer grid; slice partition for i in -1..len+1; distinct_nontrivial = distinct (identity, value) outcomes")
	r.Assume("metamorphic oracle: no reference evaluator is involved; failures of both sides must coincide except len(map(xs,f)) = len(xs), whose left side may fail alone when f fails")
}
