package main

import (
	"fmt"
	"reflect"
	"strings"
	"sync/atomic"

	"github.com/antonmedv/expr"
	"github.com/antonmedv/expr/vm"

	"verif/mc/gen"
	"verif/mc/henv"
	"verif/mc/lib"
	"verif/mc/par"
	"verif/mc/report"
	"verif/mc/snap"
)

// C07: a reused VM behaves like a fresh one. Explicit-state BFS over histories of
// runs on ONE vm.VM value; transition function = the real (*VM).Run; state = every
// field of the VM struct (read reflectively) + vm.MemoryBudget.

// c07SharedNames is ONE list (nine elements, one backing array) that two operations overwrite in place before running.
var c07SharedNames = []string{"k0", "k1", "k2", "k3", "k4", "k5", "k6", "k7", "k8"}

type c07Op struct {
	name   string
	prog   *vm.Program
	env    interface{}
	pre    func() // host-side change of the (shared) environment made right before this run
	budget int    // >0: configuration operation "set vm.MemoryBudget"
}

type c07Env struct {
	N, Z  int
	A     []int
	Big   []int
	S, T  string
	Names []string
	O     *c07Env
	X     interface{}
}

func (c07Env) Boom(i int) int    { panic("boom") }
func (e c07Env) Total() int      { return e.N*100 + len(e.A) }
func (e c07Env) Scale(i int) int { return e.N * i }

type c07NamedMap map[string]interface{}

func c07Ops() []c07Op {
	mustC := func(src string, ops ...expr.Option) *vm.Program {
		p, err := expr.Compile(src, ops...)
		if err != nil {
			panic(fmt.Sprintf("c07: cannot compile %q: %v", src, err))
		}
		return p
	}
	se := func(n, z int) c07Env { return c07Env{N: n, Z: z, A: []int{1, 2, 3}} }
	me := map[string]interface{}{"N": 2, "Z": 1, "A": []int{1, 2, 3}}
	noopt := expr.Optimize(false)
	alloc := mustC(`map(1..N, {# * 2})`, expr.Env(c07Env{}), noopt)
	nested := mustC(`all(A, {all(A, {[#, N / Z][1] >= 0})})`, expr.Env(c07Env{}), noopt)
	callProg := mustC(`Total() + N`, expr.Env(c07Env{}))
	loopCallProg := mustC(`map(A, {Scale(#)})`, expr.Env(c07Env{}), noopt)
	return []c07Op{
		{name: "triv", prog: mustC(`1 + 2`, noopt), env: nil},
		{name: "alloc4", prog: alloc, env: se(2, 1)},
		{name: "alloc6", prog: alloc, env: se(3, 1)},
		{name: "failFirst", prog: mustC(`Missing + 1`, noopt), env: se(1, 1)},
		{name: "failNested", prog: nested, env: se(1, 0)},
		{name: "okNested", prog: nested, env: se(1, 1)},
		{name: "overBudget", prog: alloc, env: se(20, 1)},
		{name: "allocAtBudget", prog: alloc, env: se(5, 1)},
		{name: "arrays", prog: mustC(`map(A, {[#, N]})`, expr.Env(c07Env{}), noopt), env: se(2, 1)},
		{name: "long", prog: mustC(`[N, N + 1, N + 2, N + 3][2] + len(A[1:])`, expr.Env(c07Env{}), noopt), env: se(5, 1)},
		{name: "count", prog: mustC(`count(A, {# > 1}) + count(1..N, {# > Z})`, expr.Env(c07Env{}), noopt), env: se(3, 1)},
		{name: "mapEnv", prog: mustC(`filter(A, {# >= N})`, expr.Env(me)), env: me},
		{name: "callPanic", prog: mustC(`map(A, {Boom(#)})`, expr.Env(c07Env{})), env: se(1, 1)},
		{name: "callEnvA", prog: callProg, env: se(2, 1)}, // ONE program value for both environments
		{name: "callEnvB", prog: callProg, env: c07Env{N: 7, Z: 1, A: []int{1}}},
		{name: "mapProgNilEnv", prog: mustC(`N`, expr.Env(me)), env: nil},
		{name: "mapProgNamedMap", prog: mustC(`N`, expr.Env(me)), env: c07NamedMap{"N": 9}},
		{name: "mapProgOtherMap", prog: mustC(`N`, expr.Env(me)), env: map[string]interface{}{"N": 4}},
		{name: "allocThenFail", prog: mustC(`map(1..N, {#})[N + 5]`, expr.Env(c07Env{}), noopt), env: se(3, 1)},
		{name: "loopCallFails", prog: mustC(`map(A, {Scale(#) % Z})`, expr.Env(c07Env{}), noopt), env: se(5, 0)},
		{name: "loopCallA", prog: loopCallProg, env: se(2, 1)},
		{name: "loopCallB", prog: loopCallProg, env: se(7, 1)},
		{name: "nestedLoopCallFails", prog: mustC(`map(A, {count(A, {Scale(#) % Z > 0})})`, expr.Env(c07Env{}), noopt), env: se(3, 0)},
		{name: "nestedLoopCall", prog: mustC(`map(A, {count(A, {Scale(#) > 2})})`, expr.Env(c07Env{}), noopt), env: se(2, 1)},
		{name: "deepStackOverBudget", prog: mustC(`filter(Big, {true})`, expr.Env(c07Env{}), noopt), env: c07Env{N: 1, Z: 1, A: []int{1}, Big: make([]int, 1500)}},
		{name: "deepStackNoAllocation", prog: mustC(`count(Big, {true}) + len(Big)`, expr.Env(c07Env{}), noopt), env: c07Env{N: 1, Z: 1, A: []int{1}, Big: make([]int, 3000)}},
		{name: "noEnvProgOnMap", prog: mustC(`N + Z`), env: map[string]interface{}{"N": 40, "Z": 2}},
		{name: "noEnvProgOnStruct", prog: mustC(`N + Z`), env: se(2, 1)},
		{name: "noEnvProgOnTypedMap", prog: mustC(`N + Z`), env: map[string]int{"N": 7, "Z": 7}},
		{name: "matchValid", prog: mustC(`S matches T`, expr.Env(c07Env{}), noopt), env: c07Env{S: "abc", T: "b"}},
		{name: "matchInvalid", prog: mustC(`S matches T`, expr.Env(c07Env{}), noopt), env: c07Env{S: "abc", T: "a("}},
		{name: "matchOther", prog: mustC(`T matches S`, expr.Env(c07Env{}), noopt), env: c07Env{S: "a(", T: "a("}},
		{name: "inListFirst", prog: mustC(`"k0" in Names`, expr.Env(c07Env{}), noopt), env: c07Env{Names: c07SharedNames}, pre: func() { c07SharedNames[0] = "k0" }},
		{name: "inListOverwritten", prog: mustC(`"k0" in Names`, expr.Env(c07Env{}), noopt), env: c07Env{Names: c07SharedNames}, pre: func() { c07SharedNames[0] = "zz" }},
		{name: "nilSafeNil", prog: mustC(`O?.S`, expr.Env(c07Env{}), noopt), env: c07Env{}},
		{name: "indexOfNil", prog: mustC(`X[0]`, expr.Env(c07Env{}), noopt), env: c07Env{}},
		{name: "propertyOfNil", prog: mustC(`O.S`, expr.Env(c07Env{}), noopt), env: c07Env{}},
		{name: "budget5", budget: 5},
		{name: "budget10", budget: 10},
	}
}

// c07Mutated is set by c07Replay when a later run changed a value returned by an earlier one.
var c07Mutated string

type c07Res struct {
	out    string
	failed bool
}

func c07Run(v *vm.VM, op c07Op) c07Res {
	if op.budget > 0 {
		vm.MemoryBudget = op.budget
		return c07Res{out: "budget"}
	}
	if op.pre != nil {
		op.pre()
	}
	out, err := v.Run(op.prog, op.env)
	if err != nil {
		return c07Res{failed: true, out: err.Error()}
	}
	return c07Res{out: snap.String(out)}
}

func c07Fresh(op c07Op) c07Res {
	if op.budget > 0 {
		return c07Res{out: "budget"}
	}
	if op.pre != nil {
		op.pre()
	}
	out, err := vm.Run(op.prog, op.env)
	if err != nil {
		return c07Res{failed: true, out: err.Error()}
	}
	return c07Res{out: snap.String(out)}
}

// replayHistory runs the history on a fresh VM value and returns the result of the
// last operation, the fresh-VM result of the same operation and the state hash.
func c07Replay(ops []c07Op, hist []int, base int) (last, fresh c07Res, state string) {
	vm.MemoryBudget = base
	v := &vm.VM{}
	c07Mutated = ""
	var kept []interface{}
	var keptSnap []string
	for k, i := range hist {
		if k == len(hist)-1 {
			fresh = c07Fresh(ops[i])
		}
		if ops[i].budget > 0 {
			last = c07Run(v, ops[i])
			continue
		}
		if ops[i].pre != nil {
			ops[i].pre()
		}
		out, err := v.Run(ops[i].prog, ops[i].env)
		if err != nil {
			last = c07Res{failed: true, out: err.Error()}
		} else {
			last = c07Res{out: snap.String(out)}
			kept = append(kept, out)
			keptSnap = append(keptSnap, last.out)
		}
		// a value returned by an earlier run must not be changed by later runs on the same VM
		for j := 0; j+1 < len(kept) || (err != nil && j < len(kept)); j++ {
			if snap.String(kept[j]) != keptSnap[j] {
				c07Mutated = fmt.Sprintf("result %d of the history changed from %s to %s", j, keptSnap[j], snap.String(kept[j]))
			}
		}
	}
	state = fmt.Sprintf("budget=%d;", vm.MemoryBudget) + snap.Value(reflect.ValueOf(v).Elem())
	return
}

func c07Names(ops []c07Op, hist []int) string {
	var s []string
	for _, i := range hist {
		s = append(s, ops[i].name)
	}
	return strings.Join(s, ",")
}

// c07Wide: every ordered pair (thorough: also triples led by a failing run) over a WIDE alphabet of runs - every
// expression of the loops, alloc and access slices up to a node budget x its first valuations x {optimized, not} -
// on one reused VM: the last run must return what a fresh VM returns. Predecessors are the runs that fail or
// allocate (the ones that can leave something behind) plus every 7th other run.
type c07WideOp struct {
	src   string
	prog  *vm.Program
	env   func() interface{}
	fresh c07Res
	pred  bool
}

func c07Wide(r *report.Run) (pairs int64, nops int) {
	maxN := map[string]int{"quick": 3, "thorough": 4}[r.Tier]
	var ops []*c07WideOp
	for _, sl := range []*slice{sliceLoops(), sliceAlloc(), sliceAccess()} {
		for n := 1; n <= maxN; n++ {
			for _, top := range sl.tops {
				sp := sl.g.Space(top, n)
				for i := int64(0); i < sp.Total; i++ {
					e := sp.At(i)
					vals := henv.Valuations(gen.Vars(e))
					if len(vals) > 4 {
						vals = vals[:4]
					}
					names := gen.Names(e)
					for _, m := range []lib.Mode{{Env: "struct", Opt: false}, {Env: "struct", Opt: true}} {
						p, err := lib.Compile(e.String(), m)
						if err != nil {
							continue
						}
						for _, v := range vals {
							v, m := v, m
							op := &c07WideOp{src: e.String() + " @ " + v.Describe(), prog: p, env: func() interface{} { return m.RunEnv(henv.Make(v), names) }}
							ops = append(ops, op)
						}
					}
				}
			}
		}
	}
	run := func(v *vm.VM, op *c07WideOp) (res c07Res) {
		defer func() {
			if p := recover(); p != nil {
				res = c07Res{failed: true, out: fmt.Sprint("PANIC ", p)}
			}
		}()
		var out interface{}
		var err error
		if v == nil {
			out, err = vm.Run(op.prog, op.env())
		} else {
			out, err = v.Run(op.prog, op.env())
		}
		if err != nil {
			return c07Res{failed: true, out: err.Error()}
		}
		return c07Res{out: henv.Norm(out)}
	}
	for i, op := range ops {
		op.fresh = run(nil, op)
		op.pred = op.fresh.failed || strings.Contains(op.src, "..") || strings.Contains(op.src, "[") || strings.Contains(op.src, "map(") || strings.Contains(op.src, "filter(") || i%7 == 0
	}
	var preds []*c07WideOp
	for _, op := range ops {
		if op.pred {
			preds = append(preds, op)
		}
	}
	var n int64
	par.For(len(preds), func(i int) {
		a := preds[i]
		for _, b := range ops {
			v := &vm.VM{}
			run(v, a)
			got := run(v, b)
			atomic.AddInt64(&n, 1)
			if got != b.fresh {
				r.Report(report.Violation{Sub: "reuse-wide", Kind: "differs-from-fresh-vm", Witness: a.src + " ; " + b.src, Order: int64(1)<<40 + int64(i),
					Detail: map[string]interface{}{"first_run": a.src, "second_run": b.src, "reused": fmt.Sprint(got), "fresh": fmt.Sprint(b.fresh)}})
				return
			}
			if r.Tier == "thorough" && a.fresh.failed && i%5 == 0 {
				// triples: failing run, then b, then b again and the failing run's neighbour
				got2 := run(v, b)
				atomic.AddInt64(&n, 1)
				if got2 != b.fresh {
					r.Report(report.Violation{Sub: "reuse-wide", Kind: "differs-from-fresh-vm", Witness: a.src + " ; " + b.src + " ; " + b.src, Order: int64(1)<<40 + int64(i),
						Detail: map[string]interface{}{"reused": fmt.Sprint(got2), "fresh": fmt.Sprint(b.fresh)}})
					return
				}
			}
		}
	})
	return n, len(ops)
}

func init() { checks["C07"] = c07 }

func c07(r *report.Run) {
	saved := vm.MemoryBudget
	defer func() { vm.MemoryBudget = saved }()
	const base = 10
	ops := c07Ops()
	maxDepth := 4
	if r.Tier == "thorough" {
		maxDepth = 7
	}
	seen := map[string]bool{}
	var frontier [][]int
	frontier = append(frontier, nil)
	_, _, s0 := c07Replay(ops, nil, base)
	seen[s0] = true
	var states, transitions, mismatches int64 = 1, 0, 0
	outcomes := map[string]bool{}
	depthDone := 0
	exhaustive := true
	fixpoint := false
	for depth := 1; depth <= maxDepth; depth++ {
		if r.OutOfTime() {
			exhaustive = false
			break
		}
		var next [][]int
		for _, h := range frontier {
			for i := range ops {
				hist := append(append([]int{}, h...), i)
				last, fresh, st := c07Replay(ops, hist, base)
				transitions++
				outcomes[fmt.Sprintf("%s:%v:%s", ops[i].name, last.failed, last.out)] = true
				if c07Mutated != "" {
					r.Report(report.Violation{Sub: "reuse", Kind: "earlier-result-changed-by-later-run", Witness: c07Names(ops, hist[len(hist)-2:]), Order: transitions,
						Detail: map[string]interface{}{"history": c07Names(ops, hist), "what": c07Mutated}})
				}
				if last != fresh {
					mismatches++
					// shrink: drop earlier operations while the last run still differs the same way
					w := hist
					for changed := true; changed; {
						changed = false
						for k := 0; k < len(w)-1; k++ {
							c := append(append([]int{}, w[:k]...), w[k+1:]...)
							l2, f2, _ := c07Replay(ops, c, base)
							if l2 != f2 && l2.failed == last.failed {
								w, changed = c, true
								break
							}
						}
					}
					kind := "fails-but-fresh-succeeds"
					if last.failed && fresh.failed {
						kind = "fails-differently-from-fresh"
					}
					if !last.failed && fresh.failed {
						kind = "succeeds-but-fresh-fails"
					} else if !last.failed {
						kind = "value-differs"
					}
					r.Report(report.Violation{Sub: "reuse", Kind: kind, Witness: c07Names(ops, w), Order: transitions,
						Detail: map[string]interface{}{"history": c07Names(ops, hist), "base_budget": base,
							"reused": fmt.Sprint(last), "fresh": fmt.Sprint(fresh)}})
				}
				if !seen[st] {
					seen[st] = true
					states++
					next = append(next, hist)
					if states <= 6 {
						r.Sample(map[string]interface{}{"history": c07Names(ops, hist), "result": last.out, "failed": last.failed})
					}
				}
			}
		}
		depthDone = depth
		frontier = next
		if len(frontier) == 0 {
			fixpoint = true
			break
		}
	}
	vm.MemoryBudget = base
	widePairs, wideOps := c07Wide(r)
	r.Set("wide_alphabet_runs", wideOps)
	r.Set("wide_histories", widePairs)
	transitions += widePairs
	r.Set("states", states)
	r.Set("transitions", transitions)
	r.Set("traces_validated_against_impl", transitions)
	r.Set("evaluations", transitions)
	r.Set("distinct_nontrivial", int64(len(outcomes)))
	r.Set("rule", "BFS over histories of an alphabet of run/configuration operations on one vm.VM value; state = all VM fields (reflective) + vm.MemoryBudget; successor = replay on a fresh VM{} + one operation; distinct_nontrivial = distinct (operation, outcome) pairs observed")
	r.Set("operations", len(ops))
	r.Set("depth_completed", depthDone)
	r.Set("state_space_closed", fixpoint)
	r.Set("exhaustive", exhaustive)
	r.Set("mismatching_runs", mismatches)
	r.Assume("the transition function is the real (*vm.VM).Run, so every explored transition is an implementation trace")
	r.Assume("VMs created by vm.Debug() are not in the alphabet (their channels are closed at the end of a run by design)")
	r.Assume("two histories are merged only when every field of the VM struct and vm.MemoryBudget agree; Run reads no other state")
}
