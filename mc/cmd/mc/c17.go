package main

import (
	"fmt"
	"strings"

	"github.com/antonmedv/expr"
	"github.com/antonmedv/expr/ast"
	"github.com/antonmedv/expr/vm"

	"verif/mc/gen"
	"verif/mc/henv"
	"verif/mc/lib"
	"verif/mc/report"
)

// C17: operator overloading is equivalent to calling the function. Differential:
// E compiled with an operator table vs E' (matching occurrences, by static operand
// types, replaced by the explicit call) compiled without, on every value; every
// ill-shaped table must be rejected.

type c17Fn struct {
	name  string
	l, r  gen.Ty // TAny = interface{} parameter (matches everything)
	out   gen.Ty
	iface string // "any" | "stringer" | ""
}

type c17Table struct {
	name string
	ops  map[string][]c17Fn
}

var (
	fOpAdd   = c17Fn{"OpAdd", gen.TInt, gen.TInt, gen.TInt, ""}
	fOpAddF  = c17Fn{"OpAddF", gen.TFloat, gen.TFloat, gen.TFloat, ""}
	fOpCat   = c17Fn{"OpCat", gen.TStr, gen.TStr, gen.TStr, ""}
	fOpSubS  = c17Fn{"OpSubS", gen.TStr, gen.TStr, gen.TStr, ""}
	fOpEq    = c17Fn{"OpEqObj", gen.TObj, gen.TObj, gen.TBool, ""}
	fOpLt    = c17Fn{"OpLtObj", gen.TObj, gen.TObj, gen.TBool, ""}
	fOpAny   = c17Fn{"OpAny", gen.TAny, gen.TAny, gen.TAny, "any"}
	fOpIn    = c17Fn{"OpIn", gen.TStr, gen.TStr, gen.TBool, ""}
	fOpAnd   = c17Fn{"OpAnd", gen.TInt, gen.TInt, gen.TBool, ""}
	fFnAdd   = c17Fn{"FnOpAdd", gen.TInt, gen.TInt, gen.TInt, ""}
	fOpStr   = c17Fn{"OpStr", gen.TObj, gen.TObj, gen.TStr, "stringer"}
	fOpAnyEq = c17Fn{"OpAnyEq", gen.TAny, gen.TAny, gen.TBool, "any"}
	fOpSubMI = c17Fn{"OpSubMI", gen.TMyInt, gen.TMyInt, gen.TMyStr, ""}
	fOpAddMS = c17Fn{"OpAddMIS", gen.TMyInt, gen.TMyStr, gen.TMyInt, ""}
	fOpNotIn = c17Fn{"OpNotIn", gen.TStr, gen.TStr, gen.TBool, ""}
)

var c17Tables = []c17Table{
	{"one method", map[string][]c17Fn{"+": {fOpAdd}}},
	{"three candidates", map[string][]c17Fn{"+": {fOpAddF, fOpAdd, fOpCat}}},
	{"string minus", map[string][]c17Fn{"-": {fOpSubS}}},
	{"object comparison", map[string][]c17Fn{"==": {fOpEq}, "<": {fOpLt}}},
	{"function-typed field", map[string][]c17Fn{"+": {fFnAdd}}},
	{"interface parameters", map[string][]c17Fn{"+": {fOpAny}}},
	{"in and and", map[string][]c17Fn{"in": {fOpIn}, "and": {fOpAnd}}},
	{"stringer interface", map[string][]c17Fn{"+": {fOpStr, fOpAdd}}},
	{"interface equality", map[string][]c17Fn{"==": {fOpAnyEq}}},
	{"named numeric chain", map[string][]c17Fn{"-": {fOpSubMI}, "+": {fOpAddMS, fOpAdd}}},
	{"not in", map[string][]c17Fn{"not in": {fOpNotIn}, "in": {fOpIn}}},
	{"not in alone", map[string][]c17Fn{"not in": {fOpNotIn}}},
	{"method then function-typed field", map[string][]c17Fn{"+": {fOpCat, fFnAdd}}},
	{"function-typed field then methods", map[string][]c17Fn{"+": {fFnAdd, fOpCat, fOpAddF}}},
}

func (t c17Table) options() []expr.Option {
	var ops []expr.Option
	for _, op := range []string{"+", "-", "==", "<", "in", "not in", "and"} {
		if fns, ok := t.ops[op]; ok {
			var names []string
			for _, f := range fns {
				names = append(names, f.name)
			}
			ops = append(ops, expr.Operator(op, names...))
		}
	}
	return ops
}

func c17Grammar() *gen.Grammar {
	T := gen.TBool
	rules := []*gen.Rule{
		gen.Var("I", gen.TInt), gen.Var("J", gen.TInt), gen.Lit("1", gen.TInt, 1),
		gen.Var("S", gen.TStr), gen.Var("T", gen.TStr), gen.Var("F", gen.TFloat), gen.Var("O", gen.TObj), gen.Var("P", gen.TObj), gen.Var("B", T),
		gen.Var("A", gen.TIntArr), gen.Var("SA", gen.TStrArr), gen.Var("OS", gen.TObjArr),
		gen.Hash(gen.TInt), gen.Hash(gen.TStr), gen.Hash(gen.TObj),
		// overloadable occurrences
		gen.Bin("+", gen.TInt, gen.TInt, gen.TInt), gen.Bin("+", gen.TStr, gen.TStr, gen.TStr), gen.Bin("+", gen.TFloat, gen.TFloat, gen.TFloat),
		gen.Bin("+", gen.TInt, gen.TFloat, gen.TFloat), gen.Bin("-", gen.TInt, gen.TInt, gen.TInt), gen.Bin("-", gen.TStr, gen.TStr, gen.TStr),
		gen.Bin("==", gen.TObj, gen.TObj, T), gen.Bin("<", gen.TObj, gen.TObj, T), gen.Bin("==", gen.TInt, gen.TInt, T), gen.Bin("<", gen.TInt, gen.TInt, T),
		gen.Bin("in", gen.TStr, gen.TStr, T), gen.Bin("in", gen.TInt, gen.TIntArr, T), gen.Bin("and", gen.TInt, gen.TInt, T), gen.Bin("and", T, T, T),
		gen.Bin("+", gen.TObj, gen.TObj, gen.TStr),
		gen.Var("MI", gen.TMyInt), gen.Bin("-", gen.TMyInt, gen.TMyInt, gen.TMyStr), gen.Bin("+", gen.TMyInt, gen.TMyStr, gen.TMyInt), gen.Bin("not in", gen.TStr, gen.TStr, T),
		gen.Var("X", gen.TAny), gen.Var("Y", gen.TAny), gen.Lit("nil", gen.TNil, nil),
		// TFunc: a dynamic sum that no other rule consumes (the checker types it optimistically)
		gen.Bin("+", gen.TAny, gen.TInt, gen.TFunc), gen.Bin("+", gen.TAny, gen.TAny, gen.TFunc),
		gen.Bin("==", gen.TObj, gen.TNil, T), gen.Bin("==", gen.TAny, gen.TAny, T),
		// contexts
		gen.Index(gen.TIntArr, gen.TInt, gen.TInt), gen.Slice("f", gen.TIntArr), gen.Slice("ft", gen.TIntArr), gen.Slice("t", gen.TStr), gen.Index(gen.TObjArr, gen.TInt, gen.TObj),
		gen.Call("Id", gen.TInt, gen.TInt), gen.Call("Sum", gen.TInt, gen.TInt, gen.TInt), gen.Call("Cat", gen.TStr, gen.TStr, gen.TStr),
		gen.Call("Pack", gen.TAny, gen.TInt), gen.Call("Pack", gen.TAny, gen.TStr, gen.TInt), gen.Call("Fast", gen.TAny, gen.TInt, gen.TStr), gen.Call("TakesAny", gen.TAny, gen.TInt), gen.Call("Second", gen.TAny, gen.TStr, gen.TObj),
		gen.Method(gen.TObj, "Plus", gen.TInt, false, gen.TInt), gen.Prop(gen.TObj, "Next", gen.TObj, false),
		gen.Builtin("map", gen.TIntArr, gen.TInt, gen.TIntArr), gen.Builtin("all", gen.TIntArr, T, T), gen.Builtin("filter", gen.TStrArr, T, gen.TStrArr), gen.Builtin("any", gen.TObjArr, T, T), gen.Builtin("count", gen.TIntArr, T, gen.TInt),
		gen.Cond(gen.TInt), gen.Cond(gen.TStr), gen.Un("not", T, T), gen.Un("-", gen.TInt, gen.TInt),
		gen.ArrAs(gen.TAnyArr, gen.TInt), gen.ArrAs(gen.TAnyArr, gen.TStr, gen.TInt), gen.MapLit([]string{"a"}, gen.TInt), gen.MapLit([]string{"a"}, gen.TStr),
		gen.Len(gen.TAnyArr), gen.Len(gen.TStr), gen.Len(gen.TIntArr),
		{Op: "elvis", Out: T, In: []gen.Slot{{T: T, Operand: true, Closure: -1}, {T: T, Operand: true, Closure: -1}}, Fmt: "%s ?: %s"},
		{Op: "elvis", Out: gen.TInt, In: []gen.Slot{{T: gen.TInt, Operand: true, Closure: -1}, {T: gen.TInt, Operand: true, Closure: -1}}, Fmt: "%s ?: %s"},
	}
	return gen.NewGrammar(rules)
}

// c17Rewrite returns E' and the number of occurrences rewritten; nil if E contains an
// occurrence whose operand types are only valid with the overload (then E' is the only meaning).
func c17Rewrite(e *gen.Expr, t c17Table) (*gen.Expr, int, bool) {
	n := 0
	valid := true
	var rec func(x *gen.Expr) *gen.Expr
	rec = func(x *gen.Expr) *gen.Expr {
		kids := make([]*gen.Expr, len(x.Kids))
		for i, k := range x.Kids {
			kids[i] = rec(k)
		}
		if x.R.Op == "bin" {
			lt, rt := x.R.In[0].T, x.R.In[1].T
			for _, f := range t.ops[x.R.Arg] {
				match := f.l == lt && f.r == rt
				if f.iface == "any" {
					match = true
				}
				if f.iface == "stringer" {
					match = lt == gen.TObj && rt == gen.TObj
				}
				if match {
					n++
					return &gen.Expr{R: gen.Call(f.name, f.out, lt, rt), Kids: kids}
				}
			}
			// no overload applies: the built-in meaning must exist
			builtinOK := map[string]bool{"+Int,Int": true, "+Str,Str": true, "+Float,Float": true, "+Int,Float": true, "-Int,Int": true, "==Obj,Obj": true, "==Int,Int": true, "<Int,Int": true, "inInt,IntArr": true, "andBool,Bool": true, "+Any,Int": true, "+Any,Any": true, "==Obj,Nil": true, "==Any,Any": true}
			if !builtinOK[x.R.Arg+lt.String()+","+rt.String()] {
				valid = false
			}
		}
		return &gen.Expr{R: x.R, Kids: kids}
	}
	out := rec(e)
	return out, n, valid
}

func c17Oracle(e *gen.Expr, t c17Table, only string) (out []mismatch, runs int64, rewritten int) {
	e2, n, valid := c17Rewrite(e, t)
	if !valid {
		return nil, 0, 0
	}
	rewritten = n
	src, src2 := e.String(), e2.String()
	vals := henv.Valuations(gen.Vars(e))
	names := gen.Names(e2)
	for _, extra := range gen.Names(e) {
		names = append(names, extra)
	}
	for _, m := range []lib.Mode{{Env: "struct", Opt: true}, {Env: "struct", Opt: false}, {Env: "ptr", Opt: true}, {Env: "map", Opt: true}} {
		if only != "" && !strings.HasPrefix(only, m.String()+"|") {
			continue
		}
		if m.Env == "map" && usesDynamicMember(e) {
			continue
		}
		pO, errO := lib.Compile(src, m, t.options()...)
		pC, errC := lib.Compile(src2, m)
		if errC == nil && errO == nil && m.Env == "struct" && m.Opt {
			// the same pair with an unknown name that a user visitor repairs (the first type check fails)
			wrap := func(s string) string { return "[" + s + ", Zfix][0]" }
			pO2, eO2 := lib.Compile(wrap(src), m, append(t.options(), expr.Patch(c17Repair{}))...)
			pC2, eC2 := lib.Compile(wrap(src2), m, expr.Patch(c17Repair{}))
			if eC2 == nil && eO2 != nil {
				if only == "" || only == m.String()+"|operator-form-rejected-with-repairing-visitor" {
					out = append(out, mismatch{m.String(), "operator-form-rejected-with-repairing-visitor", henv.Val{}, eO2.Error()})
				}
			} else if eC2 == nil && eO2 == nil {
				for _, v := range vals {
					a, ea := lib.Run(pO2, m.RunEnv(henv.Make(v), append(names, "I")))
					b, eb := lib.Run(pC2, m.RunEnv(henv.Make(v), append(names, "I")))
					runs += 2
					if (ea == nil) != (eb == nil) || (ea == nil && henv.Norm(a) != henv.Norm(b)) {
						if only == "" || only == m.String()+"|differs-with-repairing-visitor" {
							out = append(out, mismatch{m.String(), "differs-with-repairing-visitor", v, fmt.Sprintf("operator form %s %v, call form %s %v", henv.Norm(a), ea, henv.Norm(b), eb)})
						}
						break
					}
				}
			}
		}
		add := func(kind string, v henv.Val, d string) {
			if only == "" || only == m.String()+"|"+kind {
				out = append(out, mismatch{m.String(), kind, v, d})
			}
		}
		if m.Env == "struct" && m.Opt && errO == nil {
			// the operator table given BEFORE the environment must mean the same
			rev := append(append([]expr.Option{}, t.options()...), m.Options()...)
			pR, errR := func() (p *vm.Program, err error) {
				defer func() {
					if r := recover(); r != nil {
						err = fmt.Errorf("PANIC %v", r)
					}
				}()
				return expr.Compile(src, rev...)
			}()
			if errR != nil || progKey(pR) != progKey(pO) {
				add("operators-before-env-differ", henv.Val{}, fmt.Sprint(errR))
			}
		}
		if m.Env == "struct" && m.Opt && errO == nil {
			// the same operator form with other blanks between its tokens means the same
			for _, ws := range []string{"  ", "\n", "\t "} {
				if alt, ok := c11Relayout(src, ws); ok && alt != src {
					pW, errW := lib.Compile(alt, m, t.options()...)
					if errW != nil {
						add("operator-form-rejected-with-other-blanks", henv.Val{}, fmt.Sprintf("%q: %v", alt, errW))
						break
					}
					if fmt.Sprintf("%x", pW.Bytecode) != fmt.Sprintf("%x", pO.Bytecode) {
						add("operator-form-differs-with-other-blanks", henv.Val{}, fmt.Sprintf("%q compiles to other bytecode than %q", alt, src))
						break
					}
				}
			}
		}
		if errC != nil {
			continue // the explicit-call form is not a program (e.g. constant division by zero)
		}
		if errO != nil {
			add("operator-form-rejected", henv.Val{}, errO.Error())
			continue
		}
		for _, v := range vals {
			e1, e2v := henv.Make(v), henv.Make(v)
			a, ea := lib.Run(pO, m.RunEnv(e1, names))
			b, eb := lib.Run(pC, m.RunEnv(e2v, names))
			runs += 2
			switch {
			case (ea == nil) != (eb == nil):
				add("failure-differs", v, fmt.Sprintf("operator form: %v %v; call form: %v %v", henv.Norm(a), ea, henv.Norm(b), eb))
			case ea == nil && henv.Norm(a) != henv.Norm(b):
				add("value", v, fmt.Sprintf("operator form %s, call form %s", henv.Norm(a), henv.Norm(b)))
			case ea == nil && e1.L.String() != e2v.L.String():
				add("calls", v, fmt.Sprintf("operator form calls %q, call form %q", e1.L.String(), e2v.L.String()))
			}
			if len(out) > 0 && only == "" {
				break
			}
		}
	}
	return
}

// c17OtherEnv has the overload functions of the harness environment under the same names with other signatures.
type c17OtherEnv struct {
	I, J int
	F, G float64
	S, T string
	MI   henv.MyInt
}

func (c17OtherEnv) OpAdd(a, b float64) float64 { return a - b }
func (c17OtherEnv) OpAddF(a, b int) int        { return a - b }
func (c17OtherEnv) OpCat(a, b int) int         { return 0 }
func (c17OtherEnv) OpAny(a, b string) string   { return "other" }
func (c17OtherEnv) OpSubS(a, b int) int        { return 9 }
func (c17OtherEnv) OpSubMI(a, b string) string { return "" }
func (c17OtherEnv) OpIn(a, b int) bool         { return true }
func (c17OtherEnv) OpAnyEq(a, b int) bool      { return false }

func init() { checks["C17"] = c17 }

func c17(r *report.Run) {
	g := c17Grammar()
	sl := &slice{name: "overload", g: g, tops: []gen.NT{nt(gen.TInt), nt(gen.TStr), nt(gen.TBool), nt(gen.TFloat), nt(gen.TIntArr), nt(gen.TAnyArr), nt(gen.TAnyMap), nt(gen.TStrArr), nt(gen.TAny), nt(gen.TFunc), nt(gen.TMyInt), nt(gen.TMyStr)},
		maxN: map[string]int{"quick": 5, "thorough": 6}}
	// Process history: the same function names mapped to the same operator were first used with ANOTHER environment
	// type, where they have other signatures. Overload resolution for the harness environment must not remember that.
	for _, src := range []string{"I + J", "F + G", "S + T", "I + F", "S - T", "MI - MI", "S in T", "I == J"} {
		expr.Compile(src, expr.Env(c17OtherEnv{}), expr.Operator("+", "OpAddF", "OpAdd", "OpCat", "OpAny"), expr.Operator("-", "OpSubS", "OpSubMI"), expr.Operator("in", "OpIn"), expr.Operator("==", "OpAnyEq"))
	}
	var rewrittenCases int64
	runSlices(r, []*slice{sl}, func(sl *slice, e *gen.Expr, order int64) (int64, []string) {
		var runs int64
		hasBin := false
		e.Walk(func(x *gen.Expr) {
			if x.R.Op == "bin" {
				hasBin = true
			}
		})
		if !hasBin {
			return 0, nil
		}
		for _, t := range c17Tables {
			ms, n, rw := c17Oracle(e, t, "")
			runs += n
			if rw > 0 {
				rewrittenCases++
			}
			seen := map[string]bool{}
			for _, m := range ms {
				if seen[m.mode+m.kind] {
					continue
				}
				seen[m.mode+m.kind] = true
				m := m
				w := sl.g.Shrink(e, func(c *gen.Expr) bool {
					x, _, _ := c17Oracle(c, t, m.mode+"|"+m.kind)
					return len(x) > 0
				})
				r.Report(report.Violation{Sub: t.name + "@" + m.mode, Kind: m.kind, Witness: w.String(), Order: order,
					Detail: map[string]interface{}{"source": e.String(), "minimal_source": w.String(), "env": m.val.Describe(), "what": m.detail, "table": t.name}})
			}
		}
		return runs, nil
	})
	// ill-shaped tables must be rejected at compile time
	bad := []struct {
		name string
		ops  []expr.Option
	}{
		{"missing function", []expr.Option{expr.Operator("+", "Missing")}},
		{"non-function member", []expr.Option{expr.Operator("+", "I")}},
		{"arity 1", []expr.Option{expr.Operator("+", "Id")}},
		{"arity 3", []expr.Option{expr.Operator("+", "Three")}},
		{"two results", []expr.Option{expr.Operator("+", "Two")}},
		{"no result", []expr.Option{expr.Operator("+", "NoResult")}},
		{"variadic with one parameter", []expr.Option{expr.Operator("+", "Sum")}},
		{"second of two candidates missing", []expr.Option{expr.Operator("+", "OpAdd", "Missing")}},
		{"second of two operators ill-shaped", []expr.Option{expr.Operator("+", "OpAdd"), expr.Operator("-", "Two")}},
		{"func-typed field with three parameters", []expr.Option{expr.Operator("+", "FnInc")}},
	}
	var badCases int64
	for i, b := range bad {
		for _, m := range []lib.Mode{{Env: "struct", Opt: true}, {Env: "ptr", Opt: true}, {Env: "map", Opt: true}, {Env: "mapundef", Opt: true}, {Env: "noenv", Opt: true}} {
			for _, src := range []string{"I + J", "1", "S"} {
				badCases++
				_, err := lib.Compile(src, m, b.ops...)
				if err == nil {
					r.Report(report.Violation{Sub: "ill-shaped-table@" + m.String(), Kind: "accepted", Witness: b.name, Order: int64(1)<<40 + int64(i),
						Detail: map[string]interface{}{"source": src, "table": b.name}})
				} else if _, isPanic := err.(*lib.PanicError); isPanic {
					r.Report(report.Violation{Sub: "ill-shaped-table@" + m.String(), Kind: "panic", Witness: b.name, Order: int64(1)<<40 + int64(i),
						Detail: map[string]interface{}{"source": src, "error": err.Error()}})
				}
			}
		}
	}
	r.Set("overload_tables", len(c17Tables))
	r.Set("expression_table_pairs_with_a_rewritten_occurrence", rewrittenCases)
	r.Set("ill_shaped_table_cases", badCases)
	r.Set("distinct_nontrivial", rewrittenCases)
	r.Assume("an occurrence matches a candidate when its static operand types equal the candidate's parameter types (interface parameters: implemented by the operand type); the first matching candidate in table order applies")
	r.Assume("expressions with an occurrence that has neither an applicable overload nor a built-in meaning are not programs and are skipped")
}

// c17Repair renames the unknown identifier Zfix to I: the first type check fails, the second succeeds.
type c17Repair struct{}

func (c17Repair) Enter(*ast.Node) {}
func (c17Repair) Exit(n *ast.Node) {
	if id, ok := (*n).(*ast.IdentifierNode); ok && id.Value == "Zfix" {
		ast.Patch(n, &ast.IdentifierNode{Value: "I"})
	}
}
