package main

import (
	"fmt"

	"verif/mc/report"
)

func init() {
	checks["counts"] = func(r *report.Run) {
		for _, sl := range []*slice{sliceControl(), sliceScalar(), sliceAccess(), sliceLoops(), sliceAlloc(), sliceOptim(), sliceNamed(), sliceNestType(), sliceCalls(), sliceKinds(), sliceMembership()} {
			fmt.Printf("%-8s", sl.name)
			for n := 1; n <= 9; n++ {
				var c int64
				for _, t := range sl.tops {
					c += sl.g.Count(t, n)
				}
				fmt.Printf(" n=%d:%d", n, c)
			}
			fmt.Println()
		}
	}
}
