//go:build !verif

package main

import (
	"fmt"
	"os"
	"os/exec"
	"strings"
	"time"

	"verif/mc/report"
)

// c09Seam (3): builds the checker against the generated overlay (every map iteration of
// the library goes through package verifseam) and lets the child enumerate permutations.
func c09Seam(r *report.Run) (string, int64) {
	bin, res, cleanup, err := buildVerifBinary()
	defer cleanup()
	if err != nil {
		r.Note("map-order seam not available: %v", err)
		r.Set("exhaustive", false)
		return "skipped: " + err.Error(), 0
	}
	cmd := exec.Command(bin, "C09", r.Tier, "seam-child")
	cmd.Env = append(os.Environ(), "VERIF_ROOT="+report.Root)
	done := make(chan struct{})
	var out []byte
	var cerr error
	go func() { out, cerr = cmd.CombinedOutput(); close(done) }()
	select {
	case <-done:
	case <-time.After(20 * time.Minute):
		cmd.Process.Kill()
		<-done
		r.Set("exhaustive", false)
		return "inconclusive: seam child did not finish", 0
	}
	var compiles int64
	note := "inconclusive: no result from the seam child: " + lastLines(string(out), 3)
	for i, line := range strings.Split(string(out), "\n") {
		switch {
		case strings.HasPrefix(line, "SEAM-VIOLATION\t"):
			f := strings.SplitN(line, "\t", 5)
			if len(f) == 5 {
				r.Report(report.Violation{Sub: "map-order@" + f[1], Kind: f[2], Witness: f[3], Order: int64(1)<<41 + int64(i), Detail: map[string]interface{}{"what": f[4]}})
			}
		case strings.HasPrefix(line, "SEAM-STATS\t"):
			var cfgs, visits, perms int64
			fmt.Sscanf(strings.TrimPrefix(line, "SEAM-STATS\t"), "%d %d %d %d", &cfgs, &visits, &perms, &compiles)
			var sites []string
			for _, s := range res.Sites {
				sites = append(sites, s.ID)
			}
			r.Set("seam_sites_rewritten", sites)
			r.Set("seam_sites_unseamed", res.Unseamed)
			r.Set("seam_configurations", cfgs)
			r.Set("seam_map_iterations_seen", visits)
			r.Set("seam_permutations_explored", perms)
			note = fmt.Sprintf("ok: %d configurations, %d map iterations, %d permutations explored", cfgs, visits, perms)
		}
	}
	if cerr != nil && !strings.Contains(string(out), "SEAM-STATS") {
		r.Set("exhaustive", false)
	}
	return note, compiles
}
