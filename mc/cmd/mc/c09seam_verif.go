//go:build verif

package main

import (
	"fmt"
	"os"
	"strings"

	"github.com/antonmedv/expr"
	"github.com/antonmedv/expr/verifseam"
	"github.com/antonmedv/expr/vm"

	"verif/mc/c16types"
	"verif/mc/henv"
	"verif/mc/report"
)

func c09Seam(r *report.Run) (string, int64) { return "(inside the seam child)", 0 }

type seamEnvSmall struct {
	F    float64
	A    int
	B    string
	C    []int
	Fn   func(int, int) int
	Cat2 func(string, string) string
}

func (seamEnvSmall) AddI(a, b int) int       { return a + b }
func (seamEnvSmall) AddS(a, b string) string { return a + b }
func (seamEnvSmall) Up(s string) string      { return s + "!" }
func (seamEnvSmall) Twice(i int) int         { return 2 * i }

type seamCfg struct {
	name string
	src  string
	ops  func() []expr.Option
	env  func() interface{} // when set, the program is also RUN on this environment and the result is part of the key
}

type seamRunEnv struct {
	MK map[interface{}]string
	MS map[string]int
	I  int
}

func seamConfigs() []seamCfg {
	small := seamEnvSmall{Fn: func(a, b int) int { return a - b }, Cat2: func(a, b string) string { return b + a }}
	mapEnv := map[string]interface{}{"a": 1, "b": "x", "c": []int{1}, "f": func(a, b int) int { return a * b }}
	map2 := map[string]interface{}{"x": 1, "y": 2}
	var cfgs []seamCfg
	add := func(name, src string, ops func() []expr.Option) { cfgs = append(cfgs, seamCfg{name, src, ops, nil}) }
	for _, src := range []string{"A + A", "B + B", "A + A + len(B + B)", `Up("k") + B`, "Twice(2) + A", "C[0] + A"} {
		src := src
		add("struct, two operators with two candidates", src, func() []expr.Option {
			return []expr.Option{expr.Env(small), expr.Operator("+", "AddI", "AddS"), expr.Operator("-", "Fn")}
		})
		add("struct, candidates in the other order", src, func() []expr.Option {
			return []expr.Option{expr.Env(small), expr.Operator("+", "AddS", "AddI")}
		})
		add("struct, overlapping candidates", src, func() []expr.Option {
			return []expr.Option{expr.Env(small), expr.Operator("+", "AddI", "AddAny", "AddS")}
		})
		add("struct, overlapping candidates reversed", src, func() []expr.Option {
			return []expr.Option{expr.Env(small), expr.Operator("+", "AddAny", "AddS", "AddI")}
		})
		add("struct, two const-expr functions", src, func() []expr.Option {
			return []expr.Option{expr.Env(small), expr.ConstExpr("Up"), expr.ConstExpr("Twice")}
		})
		add("struct, operators and const-expr", src, func() []expr.Option {
			return []expr.Option{expr.Env(small), expr.Operator("+", "AddI", "AddS"), expr.ConstExpr("Up"), expr.ConstExpr("Twice")}
		})
	}
	for _, src := range []string{"F in [5, 1, 3, 1, 4, 2]", `B in ["b", "a", "b", "c"]`, "A in [2, 1, 2]", "F not in [3, 3, 1, 2]"} {
		src := src
		add("literal array with repeated elements", src, func() []expr.Option { return []expr.Option{expr.Env(small)} })
	}
	for _, src := range []string{"a + len(b)", "f(a, 2) + c[0]", "a in c ? b : b + b", "x + y"} {
		src := src
		add("map environment with four members", src, func() []expr.Option { return []expr.Option{expr.Env(mapEnv), expr.AllowUndefinedVariables()} })
		add("map environment with two members", src, func() []expr.Option { return []expr.Option{expr.Env(map2), expr.AllowUndefinedVariables()} })
	}
	// run-time map iteration: maps whose keys are equal as numbers but differ in type, string-keyed maps
	for _, src := range []string{"MK[1]", "MK[I]", "MK[1.0]", "1 in MK", "I in MK", "len(MK)", `MS["a"] + MS["b"]`, `"a" in MS`, "len(MS)", "MK[2]", "[MK[1], MK[I], len(MS)]"} {
		src := src
		cfgs = append(cfgs, seamCfg{"run on interface-keyed and string-keyed maps", src, func() []expr.Option { return []expr.Option{expr.Env(seamRunEnv{})} },
			func() interface{} {
				return seamRunEnv{MK: map[interface{}]string{int64(1): "int64", uint8(1): "uint8", float32(1): "float32", "1": "string", 2: "two"}, MS: map[string]int{"a": 1, "b": 2, "c": 3}, I: 1}
			}})
	}
	// struct environments with two embedded structs (promoted fields are merged through a map)
	n := 0
	for _, c := range c16types.All {
		if strings.Count(c.Decl, ";") == 1 && (strings.Contains(c.Decl, "E") || strings.Contains(c.Decl, "Deep") || strings.Contains(c.Decl, "exi")) {
			c := c
			for _, src := range []string{"X", "Y", "VM()", "X == Y"} {
				src := src
				add("embedded structs "+c.Decl, src, func() []expr.Option { return []expr.Option{expr.Env(c.Value)} })
			}
			n++
			if n > 60 {
				break
			}
		}
	}
	return cfgs
}

func seamCompile(c seamCfg) (key string) {
	defer func() {
		if r := recover(); r != nil {
			key = fmt.Sprintf("PANIC %v", r)
		}
	}()
	var p *vm.Program
	p, err := expr.Compile(c.src, c.ops()...)
	if err != nil {
		if os.Getenv("SEAM_DEBUG") != "" {
			fmt.Println("DEBUG-ERR", err)
		}
		return "error"
	}
	key = progKey(p)
	if c.env != nil {
		out, rerr := vm.Run(p, c.env())
		key += fmt.Sprintf(" |run: %s %v", henv.Norm(out), rerr != nil)
	}
	return key
}

func permutations(n int) [][]int {
	var out [][]int
	a := make([]int, n)
	for i := range a {
		a[i] = i
	}
	var rec func(k int)
	rec = func(k int) {
		if k == n {
			out = append(out, append([]int{}, a...))
			return
		}
		for i := k; i < n; i++ {
			a[k], a[i] = a[i], a[k]
			rec(k + 1)
			a[k], a[i] = a[i], a[k]
		}
	}
	rec(0)
	return out[1:] // without the identity
}

func fewPermutations(n int) [][]int {
	rev := make([]int, n)
	rot := make([]int, n)
	swp := make([]int, n)
	for i := range rev {
		rev[i] = n - 1 - i
		rot[i] = (i + 1) % n
		swp[i] = i
	}
	swp[0], swp[1] = swp[1], swp[0]
	return [][]int{rev, rot, swp}
}

func init() {
	inner := checks["C09"]
	checks["C09"] = func(r *report.Run) {
		if len(os.Args) > 3 && os.Args[3] == "seam-child" {
			seamChild(r.Tier)
			return
		}
		inner(r)
	}
}

func seamChild(tier string) {
	cfgs := seamConfigs()
	var visits, perms, compiles int64
	for _, c := range cfgs {
		verifseam.Choose = nil
		verifseam.Reset()
		base := seamCompile(c)
		compiles++
		log := append([]verifseam.Visit{}, verifseam.Log...)
		if os.Getenv("SEAM_DEBUG") != "" && strings.Contains(c.name, "overlapping") {
			fmt.Println("DEBUG", c.name, c.src, log, trunc(base))
		}
		visits += int64(len(log))
		if strings.HasPrefix(base, "PANIC") {
			fmt.Printf("SEAM-VIOLATION\t%s\tcompile-panics\t%s\t%s\n", c.name, c.src, base)
			continue
		}
		type dev struct {
			v    verifseam.Visit
			perm []int
		}
		var devs []dev
		for _, v := range log {
			if v.N < 2 {
				continue
			}
			var ps [][]int
			if v.N <= 4 {
				ps = permutations(v.N)
			} else {
				ps = fewPermutations(v.N)
			}
			for _, p := range ps {
				devs = append(devs, dev{v, p})
			}
		}
		try := func(ds []dev) {
			verifseam.Reset()
			verifseam.Choose = func(site string, visit, n int) []int {
				for _, d := range ds {
					if d.v.Site == site && d.v.Visit == visit && d.v.N == n {
						return d.perm
					}
				}
				return nil
			}
			got := seamCompile(c)
			compiles++
			perms++
			if got != base {
				var w []string
				for _, d := range ds {
					w = append(w, fmt.Sprintf("%s visit %d order %v", d.v.Site, d.v.Visit, d.perm))
				}
				fmt.Printf("SEAM-VIOLATION\t%s\tprogram-or-result-depends-on-map-order\t%s with %s\tbase %s ; permuted %s\n", c.name, c.src, strings.Join(w, " + "), trunc(base), trunc(got))
			}
		}
		for _, d := range devs {
			try([]dev{d})
		}
		if tier == "thorough" {
			for i := range devs {
				for j := i + 1; j < len(devs); j++ {
					if devs[i].v != devs[j].v && devs[i].v.N <= 3 && devs[j].v.N <= 3 {
						try([]dev{devs[i], devs[j]})
					}
				}
			}
		}
	}
	verifseam.Choose = nil
	fmt.Printf("SEAM-STATS\t%d %d %d %d\n", len(cfgs), visits, perms, compiles)
	os.Exit(0)
}

func (seamEnvSmall) AddAny(a, b interface{}) interface{} { return 0 }
