package main

import (
	"fmt"
	"strings"
	"sync"
	"sync/atomic"

	"github.com/antonmedv/expr"
	"github.com/antonmedv/expr/vm"

	"verif/mc/bc"
	"verif/mc/gen"
	"verif/mc/guard"
	"verif/mc/henv"
	"verif/mc/lib"
	"verif/mc/par"
	"verif/mc/report"
	"verif/mc/vmstep"
)

// C05: emitted bytecode is well-formed and stack-balanced. (1) static decode of every
// program; (2) explicit-state exploration of ALL paths of an abstract stack machine
// (branch outcomes and collection lengths are nondeterministic environment answers);
// (3) conformance: every program is single-stepped on the real VM and each observed
// step must be a transition of the model.

type c05Totals struct {
	programs, states, transitions, traces, steps, endStates, capped, unknown int64
}

func c05Program(p *vm.Program, tot *c05Totals) (issues []bc.Issue, d *bc.Decoded) {
	d, issues = bc.Decode(p)
	atomic.AddInt64(&tot.programs, 1)
	if d.Unknown {
		atomic.AddInt64(&tot.unknown, 1)
		return nil, d
	}
	if len(issues) > 0 {
		return issues, d
	}
	st, is2 := bc.Explore(p, d, []int{0, 1, 2}, 300000)
	atomic.AddInt64(&tot.states, int64(st.States))
	atomic.AddInt64(&tot.transitions, int64(st.Transitions))
	atomic.AddInt64(&tot.endStates, int64(st.EndStates))
	if st.Capped {
		atomic.AddInt64(&tot.capped, 1)
	}
	return is2, d
}

// c05Conform single-steps one run and checks every observed step against the table.
func c05Conform(p *vm.Program, d *bc.Decoded, env interface{}, tot *c05Totals) *bc.Issue {
	s, err := vmstep.Start(p, env)
	if err != nil {
		return nil
	}
	atomic.AddInt64(&tot.traces, 1)
	ip := 0
	for {
		stack := s.VM.Stack()
		depth := len(stack)
		scopes := s.ScopeDepth()
		topInt, topIsInt := 0, false
		if depth > 0 {
			topInt, topIsInt = stack[depth-1].(int)
		}
		in := d.Instrs[ip]
		if !s.Step() {
			break
		}
		atomic.AddInt64(&tot.steps, 1)
		if in == nil {
			s.Finish()
			return &bc.Issue{Kind: "conformance-ip-not-on-boundary", Addr: ip, Msg: "the VM executed an address that is not an instruction boundary of the decoded program"}
		}
		pops, pushes := bc.Effect(p, in, topInt)
		if (in.Op == vm.OpArray || in.Op == vm.OpMap) && !topIsInt {
			pops = -1 << 20
		}
		nd := len(s.VM.Stack())
		if s.IP < len(p.Bytecode) || true {
			// the VM is parked again (or finishing: then the final pop may race; checked after completion)
		}
		if !(s.IP >= len(p.Bytecode)) {
			if nd != depth-pops+pushes {
				s.Finish()
				return &bc.Issue{Kind: "conformance-stack-effect", Addr: ip, Msg: fmt.Sprintf("%s: depth %d -> %d, model expects %d", in.Info.Name(), depth, nd, depth-pops+pushes)}
			}
			ns := s.ScopeDepth()
			want := scopes
			if in.Op == vm.OpBegin {
				want++
			} else if in.Op == vm.OpEnd {
				want--
			}
			if scopes >= 0 && ns != want {
				s.Finish()
				return &bc.Issue{Kind: "conformance-scope-effect", Addr: ip, Msg: fmt.Sprintf("%s: open scopes %d -> %d, model expects %d", in.Info.Name(), scopes, ns, want)}
			}
		}
		if s.IP != in.Next && !(in.IsJump() && s.IP == in.Target()) {
			s.Finish()
			return &bc.Issue{Kind: "conformance-successor", Addr: ip, Msg: fmt.Sprintf("%s: next ip %d is neither fall-through %d nor its jump target", in.Info.Name(), s.IP, in.Next)}
		}
		ip = s.IP
	}
	if s.Err == nil {
		if n := len(s.VM.Stack()); n != 0 {
			return &bc.Issue{Kind: "run-ends-with-extra-values", Addr: ip, Msg: fmt.Sprintf("after a successful run %d values remain under the result", n)}
		}
		if s.VM.Scope() != nil || s.ScopeDepth() > 0 {
			return &bc.Issue{Kind: "run-ends-with-open-scope", Addr: ip, Msg: "a loop scope is still open after a successful run"}
		}
	}
	return nil
}

var c05FailEnv = map[string]interface{}{"xs": []int{3, 2, 1, 0, 5}}
var c05FailProg = func() *vm.Program {
	p, err := expr.Compile("[10, 20, map(xs, {count(xs, {# > 0}) + 6 % #})]", expr.Env(c05FailEnv), expr.Optimize(false))
	if err != nil {
		panic(err)
	}
	return p
}()

func init() { checks["C05"] = c05 }

func c05(r *report.Run) {
	if !vmstep.Available() {
		r.Note("debug stepping seam not found: conformance pass skipped")
	}
	// Staleness gate: on jump-free probe programs the instruction boundaries observed while stepping must be
	// exactly the boundaries of the static decode. If they are not, the decoder's operand table no longer
	// matches the encoding (an opcode changed its operand width, a new encoding was introduced): the model is
	// out of date, which is reported as such and is NOT a violation of the property.
	if vmstep.Available() {
		for _, src := range []string{"I + 1", "[I, 2, S]", "O.N", "Id(I)", "O.Plus(2)", "{a: I}", "A[1:2]", "not B", "I in A", `S matches "a"`, "-I * 2 ** 3", "len(S)"} {
			p, err := lib.Compile(src, lib.Mode{Env: "struct", Opt: false})
			if err != nil {
				continue
			}
			d, issues := bc.Decode(p)
			if d.Unknown || len(issues) > 0 {
				continue
			}
			st, err := vmstep.Start(p, *henv.MakeFull(henv.Val{}))
			if err != nil {
				continue
			}
			ip, k, stale := 0, 0, false
			for {
				if k >= len(d.Order) || d.Order[k].Addr != ip {
					stale = ip < len(p.Bytecode)
					break
				}
				if !st.Step() {
					break
				}
				ip = st.IP
				k++
			}
			st.Finish()
			if stale {
				r.Note("model out of date: stepping the jump-free program %q visits address %d which is not an instruction boundary of the decoder; the bytecode encoding changed, C05's tables must be updated", src, ip)
				r.Set("exhaustive", false)
				r.Set("model_out_of_date", true)
				r.Set("evaluations", int64(1))
				r.Set("distinct_nontrivial", int64(2))
				r.Sample(map[string]interface{}{"probe": src, "note": "decoder table does not match the encoding; nothing was checked"})
				return
			}
		}
	}
	tot := &c05Totals{}
	modes := []lib.Mode{{Env: "struct", Opt: true}, {Env: "struct", Opt: false}, {Env: "map", Opt: true}, {Env: "noenv", Opt: true}}
	slices := []*slice{sliceControl(), sliceScalar(), sliceAccess(), sliceLoops(), sliceAlloc(), sliceOptim(), sliceAliases(), sliceElvis(), sliceCalls(), sliceKinds(), sliceNilIn()}
	budget := map[string]map[string]int{
		"quick":    {"control": 5, "scalar": 4, "access": 5, "loops": 6, "alloc": 6, "optim": 4, "aliases": 5, "elvis": 6, "calls": 6, "kinds": 5, "nilin": 6},
		"thorough": {"control": 6, "scalar": 5, "access": 6, "loops": 7, "alloc": 7, "optim": 5, "aliases": 6, "elvis": 7, "calls": 7, "kinds": 6, "nilin": 7},
	}
	for _, sl := range slices {
		sl.maxN = map[string]int{r.Tier: budget[r.Tier][sl.name]}
	}
	var mu sync.Mutex
	endKinds := map[string]bool{}
	runSlices(r, slices, func(sl *slice, e *gen.Expr, order int64) (int64, []string) {
		src := e.String()
		vals := henv.Valuations(gen.Vars(e))
		names := gen.Names(e)
		var runs int64
		var outs []string
		for _, m := range modes {
			if m.Env == "map" && usesDynamicMember(e) {
				continue
			}
			p, err := lib.Compile(src, m)
			if err != nil {
				continue
			}
			issues, d := c05Program(p, tot)
			var found *bc.Issue
			if len(issues) > 0 {
				found = &issues[0]
			} else if !d.Unknown && vmstep.Available() {
				for _, v := range vals {
					runs++
					if is := c05Conform(p, d, m.RunEnv(henv.Make(v), names), tot); is != nil {
						found = is
						break
					}
				}
			}
			if found == nil {
				// the end-state clause on a REUSED VM: after a run that failed inside nested closures, every
				// later successful run on the same VM value still ends with an empty stack and no open scope
				rv := &vm.VM{}
				for _, v := range vals {
					rv.Run(c05FailProg, c05FailEnv)
					runs++
					if _, err := rv.Run(p, m.RunEnv(henv.Make(v), names)); err == nil {
						if n := len(rv.Stack()); n != 0 {
							found = &bc.Issue{Kind: "reused-vm-run-ends-with-extra-values", Msg: fmt.Sprintf("after a failed run and then a successful run on the same VM, %d values remain on the stack", n)}
							break
						}
						if rv.Scope() != nil {
							found = &bc.Issue{Kind: "reused-vm-run-ends-with-open-scope", Msg: "after a failed run and then a successful run on the same VM a loop scope is still open"}
							break
						}
					}
				}
			}
			if found != nil {
				kind := found.Kind
				w := sl.g.Shrink(e, func(c *gen.Expr) bool {
					p2, err := lib.Compile(c.String(), m)
					if err != nil {
						return false
					}
					t2 := &c05Totals{}
					is, d2 := c05Program(p2, t2)
					for _, x := range is {
						if x.Kind == kind {
							return true
						}
					}
					if strings.HasPrefix(kind, "reused-vm") {
						rv := &vm.VM{}
						rv.Run(c05FailProg, c05FailEnv)
						for _, v := range henv.Valuations(gen.Vars(c)) {
							if _, err := rv.Run(p2, m.RunEnv(henv.Make(v), gen.Names(c))); err == nil && (len(rv.Stack()) != 0 || rv.Scope() != nil) {
								return true
							}
						}
						return false
					}
					if len(is) == 0 && strings.HasPrefix(kind, "conformance") || strings.HasPrefix(kind, "run-ends") {
						for _, v := range henv.Valuations(gen.Vars(c)) {
							if x := c05Conform(p2, d2, m.RunEnv(henv.Make(v), gen.Names(c)), t2); x != nil && x.Kind == kind {
								return true
							}
						}
					}
					return false
				})
				r.Report(report.Violation{Sub: m.String(), Kind: kind, Witness: w.String(), Order: order,
					Detail: map[string]interface{}{"source": src, "minimal_source": w.String(), "issue": found.String(), "disassembly": disasm(p)}})
			}
			mu.Lock()
			endKinds[fmt.Sprintf("%d", len(p.Bytecode)/8)] = true
			mu.Unlock()
		}
		return runs, outs
	})
	// boundary families: jump offsets around 2^16 and constant pools around 2^16 entries
	bruns := c05Boundary(r, tot)
	r.Set("programs", tot.programs)
	r.Set("states", tot.states)
	r.Set("transitions", tot.transitions)
	r.Set("traces_validated_against_impl", tot.traces)
	r.Set("concrete_steps_checked", tot.steps)
	r.Set("abstract_end_states", tot.endStates)
	r.Set("programs_capped", tot.capped)
	r.Set("programs_with_unknown_opcode", tot.unknown)
	r.Set("boundary_programs", bruns)
	r.Set("distinct_nontrivial", int64(len(endKinds))+tot.endStates/1000)
	if tot.capped > 0 || tot.unknown > 0 {
		r.Set("exhaustive", false)
	}
	r.Set("rule", "every program compiled from the slice grammars (struct/map/no-env, optimized and not) is (1) decoded and checked statically, (2) explored on ALL paths of an abstract stack machine with states (ip, abstract stack, scope stack), forking on undecidable branches and on collection lengths {0,1,2}, (3) single-stepped on the real VM for every environment value, each observed (ip, depth, scopes) step checked against the per-opcode transition table; plus boundary families around 2^16 bytes / constants")
	r.Assume("the per-opcode table of mc/bc (Appendix A of DESIGN.md) transcribes vm/vm.go; an opcode it does not know makes the program 'model out of date' (exhaustive:false), not a violation")
	r.Assume("collection lengths 0,1,2 are the explored environment answers of the abstract machine; abstract exploration is capped at 300000 states per program (cap hits are reported)")
}

func disasm(p *vm.Program) string {
	s := p.Disassemble()
	if len(s) > 1500 {
		s = s[:1500] + "..."
	}
	return s
}

// c05Boundary compiles programs whose branches are about 2^16 bytes long and
// programs with about 2^16 distinct constants: the outcome must be a compile error
// or a program that passes the static checks and runs to the expected result.
func c05Boundary(r *report.Run, tot *c05Totals) int64 {
	type benv struct {
		I int
		B bool
		A []int
	}
	var n int64
	order := int64(1) << 40
	body := func(k, pad int) string {
		var sb strings.Builder
		sb.WriteString("[")
		for i := 0; i < k; i++ {
			if i > 0 {
				sb.WriteString(",")
			}
			sb.WriteString("I")
		}
		for i := 0; i < pad; i++ {
			sb.WriteString(",true")
		}
		sb.WriteString("]")
		return sb.String()
	}
	type tmpl struct {
		name, src string
		env       benv
		want      string // expected normal form of the result
	}
	ks := []int{21830, 21832, 21833, 21834, 21835, 21836, 21837, 21838, 21839, 21840, 21841, 21842, 21843, 21844, 21845, 21846, 21848, 23000}
	if r.Tier == "thorough" {
		ks = nil
		for k := 21828; k <= 21850; k++ {
			ks = append(ks, k)
		}
		ks = append(ks, 23000, 30000, 43700)
	}
	for _, k := range ks {
		for pad := 0; pad < 3; pad++ {
			big := body(k, pad)
			ts := []tmpl{
				{"cond-else-jump", "B ? len(" + big + ") : 7", benv{I: 1, B: false}, "int(7)"},
				{"cond-then", "B ? len(" + big + ") : 7", benv{I: 1, B: true}, fmt.Sprintf("int(%d)", k+pad)},
				{"cond-end-jump", "B ? 7 : len(" + big + ")", benv{I: 1, B: true}, "int(7)"},
				{"or-jump", "B or len(" + big + ") > 0", benv{I: 1, B: true}, "true"},
				{"and-jump", "B and len(" + big + ") > 0", benv{I: 1, B: false}, "false"},
				{"loop", "count(A, {len(" + big + ") > #})", benv{I: 1, A: []int{1, 2, 1 << 30}}, "int(2)"},
				{"loop-any", "any(A, {len(" + big + ") == #})", benv{I: 1, A: []int{1, k + pad}}, "true"},
			}
			for _, t := range ts {
				if r.Tier == "quick" && pad > 0 && t.name != "cond-else-jump" && t.name != "loop" && t.name != "loop-any" {
					continue
				}
				for _, opt := range []bool{true, false} {
					if r.Tier == "quick" && !opt && k != 21845 {
						continue
					}
					n++
					order++
					p, err := expr.Compile(t.src, expr.Env(benv{}), expr.Optimize(opt))
					if err != nil {
						continue // refusing to compile is an acceptable outcome
					}
					_, issues := bc.Decode(p)
					atomic.AddInt64(&tot.programs, 1)
					witness := fmt.Sprintf("%s body=%d elements + %d pad", t.name, k, pad)
					if len(issues) > 0 {
						r.Report(report.Violation{Sub: "boundary", Kind: issues[0].Kind, Witness: t.name, Order: order,
							Detail: map[string]interface{}{"case": witness, "issue": issues[0].String(), "bytecode_len": len(p.Bytecode)}})
						continue
					}
					out, err := lib.Run(p, t.env)
					got := "error"
					if err == nil {
						got = henv.Norm(out)
					}
					if got != t.want {
						r.Report(report.Violation{Sub: "boundary", Kind: "wrong-result-with-long-branch", Witness: t.name, Order: order,
							Detail: map[string]interface{}{"case": witness, "expected": t.want, "observed": got, "error": fmt.Sprint(err), "bytecode_len": len(p.Bytecode)}})
					}
				}
			}
		}
	}
	// constant pool
	for _, k := range []int{65530, 65533, 65534, 65535, 65536, 65537} {
		var sb strings.Builder
		sb.WriteString("len([")
		for i := 0; i < k; i++ {
			if i > 0 {
				sb.WriteString(",")
			}
			fmt.Fprintf(&sb, "%d.5", i)
		}
		sb.WriteString("])")
		n++
		order++
		p, err := expr.Compile(sb.String(), expr.Optimize(false))
		if err != nil {
			continue
		}
		_, issues := bc.Decode(p)
		atomic.AddInt64(&tot.programs, 1)
		if len(issues) > 0 {
			r.Report(report.Violation{Sub: "boundary", Kind: issues[0].Kind, Witness: "constant-pool", Order: order,
				Detail: map[string]interface{}{"distinct_constants": k, "issue": issues[0].String()}})
			continue
		}
		out, err := lib.Run(p, nil)
		if err != nil || henv.Norm(out) != fmt.Sprintf("int(%d)", k) {
			r.Report(report.Violation{Sub: "boundary", Kind: "wrong-result-with-large-constant-pool", Witness: "constant-pool", Order: order,
				Detail: map[string]interface{}{"distinct_constants": k, "observed": henv.Norm(out), "error": fmt.Sprint(err)}})
		}
	}
	return n
}

var _ = guard.Enter
var _ = par.For
