package main

import (
	"encoding/json"
	"fmt"
	"os"
)

// replayFile prints the recorded violation and, when the property registered a
// replayer, re-executes the recorded case against the current tree.
// exit 1 = the violation reproduces, 0 = it does not.
func replayFile(id, path string) int {
	b, err := os.ReadFile(path)
	if err != nil {
		fmt.Fprintln(os.Stderr, err)
		return 2
	}
	var rec map[string]interface{}
	if err := json.Unmarshal(b, &rec); err != nil {
		fmt.Fprintln(os.Stderr, err)
		return 2
	}
	fmt.Printf("replay %s: sub=%v kind=%v\n  witness: %v\n", id, rec["sub"], rec["kind"], rec["witness"])
	if f, ok := replays[id]; ok {
		return f(path)
	}
	d, _ := json.MarshalIndent(rec["detail"], "  ", " ")
	fmt.Printf("  detail: %s\n", d)
	fmt.Println("  (no programmatic replayer for this property; re-run the check to re-evaluate the case)")
	return 0
}
