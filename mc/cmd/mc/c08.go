package main

import (
	"fmt"
	"os"
	"os/exec"
	"path/filepath"
	"strings"
	"time"

	"github.com/antonmedv/expr/vm"

	"verif/mc/c08lib"
	"verif/mc/report"
	"verif/mc/sched"
	"verif/mc/snap"
	"verif/mc/vmstep"
)

// C08: a compiled program can be run concurrently. E3: every interleaving, at
// instruction granularity and up to a preemption bound, of 2-3 VM threads running
// shared program instances on shared read-only environments (the only way a VM
// advances is a step granted by the explorer through the vm.Debug() seam). Oracle:
// every run returns its solo result; the deep snapshot of the shared programs and
// environments is unchanged. Plus the declared auxiliary free-running -race pass.

type c08Thread struct {
	progs   []*vm.Program
	envs    []interface{}
	next    int
	cur     *vmstep.Stepper
	results []string
	outs    []interface{} // the values themselves: rendered again when the whole execution is over
	errs    []error
}

func (t *c08Thread) record() {
	t.results = append(t.results, c08lib.Result(t.cur.Out, t.cur.Err))
	t.outs = append(t.outs, t.cur.Out)
	t.errs = append(t.errs, t.cur.Err)
}

func (t *c08Thread) Enabled() bool {
	return (t.cur != nil && !t.cur.Done) || t.next < len(t.progs)
}

func (t *c08Thread) Step() {
	for {
		if t.cur == nil || t.cur.Done {
			if t.cur != nil {
				t.record()
				t.cur = nil
			}
			if t.next >= len(t.progs) {
				return
			}
			s, err := vmstep.Start(t.progs[t.next], t.envs[t.next])
			if err != nil {
				panic(err)
			}
			t.next++
			t.cur = s
			if s.Done {
				continue
			}
		}
		if t.cur.Step() {
			return
		}
		// the run ended (normally or by failure) without executing an instruction: record and go on
		if !t.cur.Done {
			return
		}
		t.record()
		t.cur = nil
		if t.next >= len(t.progs) {
			return
		}
	}
}

type c08Exec struct {
	threads []*c08Thread
	progs   []*vm.Program
	before  string
}

func (x *c08Exec) Threads() []sched.Thread {
	out := make([]sched.Thread, len(x.threads))
	for i, t := range x.threads {
		out[i] = t
	}
	return out
}

func (x *c08Exec) Finish() {
	for _, t := range x.threads {
		if t.cur != nil {
			t.cur.Finish()
			t.record()
			t.cur = nil
		}
	}
}

// scenario: per thread, the list of (program index, env index) runs.
type c08Scenario struct {
	name    string
	threads [][][2]int
}

func c08Scenarios(tier string) []c08Scenario {
	var out []c08Scenario
	n := len(c08lib.Sources)
	// the same program in two threads, on the two environments
	for p := 0; p < n; p++ {
		out = append(out, c08Scenario{fmt.Sprintf("same program %d, two threads", p), [][][2]int{{{p, 0}}, {{p, 1}}}})
	}
	// two programs each, crossing
	for p := 0; p+1 < n; p += 2 {
		out = append(out, c08Scenario{fmt.Sprintf("programs %d,%d crossed", p, p+1), [][][2]int{{{p, 0}, {p + 1, 1}}, {{p + 1, 0}, {p, 1}}}})
	}
	// programs over the shared POINTER environment (its fields are addressable)
	for k := range c08lib.PtrSources {
		out = append(out, c08Scenario{fmt.Sprintf("pointer environment, program %d in two threads", k), [][][2]int{{{n + k, 2}}, {{n + k, 2}}}})
	}
	out = append(out, c08Scenario{"pointer environment, crossed", [][][2]int{{{n, 2}, {n + 1, 2}}, {{n + 2, 2}, {n, 2}}}})
	// three threads
	out = append(out,
		c08Scenario{"three threads: regexp, dynamic pattern, failing run", [][][2]int{{{0, 0}}, {{5, 1}}, {{6, 0}}}},
		c08Scenario{"three threads on one program with scopes", [][][2]int{{{3, 0}}, {{3, 1}}, {{3, 0}}}},
		c08Scenario{"three threads: dynamic pattern x3", [][][2]int{{{5, 0}}, {{5, 1}}, {{5, 0}}}},
	)
	return out
}

func init() { checks["C08"] = c08 }

// globalsSnap is set in the overlay build (c08globals_verif.go).
var globalsSnap func() string

func c08(r *report.Run) {
	if globalsSnap == nil && os.Getenv("VERIF_IN_OVERLAY") == "" {
		// re-run this check inside a checker built with the generated overlay, where every library
		// package exposes its package-level variables for snapshotting
		bin, _, cleanup, err := buildVerifBinary()
		if err == nil {
			cmd := exec.Command(bin, os.Args[1:]...)
			cmd.Env = append(os.Environ(), "VERIF_IN_OVERLAY=1", "VERIF_ROOT="+report.Root)
			cmd.Stdout, cmd.Stderr = os.Stdout, os.Stderr
			rerr := cmd.Run()
			cleanup()
			if rerr == nil {
				os.Exit(0)
			}
			if ee, ok := rerr.(*exec.ExitError); ok {
				os.Exit(ee.ExitCode())
			}
			os.Exit(2)
		}
		cleanup()
		r.Note("overlay build not available (%v): package-level state is covered by the race pass only", err)
	}
	if r.Tier == "thorough" && os.Getenv("VERIF_BUDGET_S") == "" {
		r.Deadline = r.Deadline.Add(60 * time.Minute) // 105 minutes: the run scenarios at the higher bound take about 45 of them
	}
	if !vmstep.Available() {
		r.Note("debug stepping seam not found: scheduler pass impossible")
		r.Set("exhaustive", false)
	}
	envs := []interface{}{c08lib.EnvA(), c08lib.EnvB(), c08lib.EnvP()}
	envSnap := snap.String(envs)
	solo := make([][]string, len(envs))
	ref, err := c08lib.CompileAll(c08lib.Env{})
	if err != nil {
		r.Report(report.Violation{Sub: "setup", Kind: "compile", Witness: err.Error(), Order: 0})
		return
	}
	for ei, e := range envs {
		for _, p := range ref {
			solo[ei] = append(solo[ei], c08lib.Result(vm.Run(p, e)))
		}
	}
	var schedules, steps int64
	globalsBefore := ""
	if globalsSnap != nil {
		globalsBefore = globalsSnap() // taken after the solo runs above have warmed every lazily initialised object
	}
	usesSync := libraryImportsSync()
	var deferred []report.Violation
	outcomes := map[string]bool{}
	exhaustive := true
	order := int64(0)
	for si, sc := range c08Scenarios(r.Tier) {
		bound := 2
		if len(sc.threads) == 3 {
			bound = 1
		}
		if r.Tier == "thorough" {
			bound++
		}
		mk := func() sched.Execution {
			progs, err := c08lib.CompileAll(c08lib.Env{})
			if err != nil {
				panic(err)
			}
			x := &c08Exec{progs: progs, before: snap.String(progs)}
			for _, runs := range sc.threads {
				t := &c08Thread{}
				for _, pe := range runs {
					t.progs = append(t.progs, progs[pe[0]])
					t.envs = append(t.envs, envs[pe[1]])
				}
				x.threads = append(x.threads, t)
			}
			return x
		}
		ex := &sched.Explorer{New: mk, Bound: bound, Stop: r.OutOfTime}
		ex.Check = func(xe sched.Execution, schedule []int) {
			x := xe.(*c08Exec)
			order++
			for ti, t := range x.threads {
				for ri, pe := range sc.threads[ti] {
					want := solo[pe[1]][pe[0]]
					got := "(missing)"
					if ri < len(t.results) {
						got = t.results[ri]
					}
					outcomes[got] = true
					if ri < len(t.outs) && got == want {
						if again := c08lib.Result(t.outs[ri], t.errs[ri]); again != got {
							r.Report(report.Violation{Sub: "scheduler", Kind: "result-changed-after-the-run-returned", Witness: fmt.Sprintf("program %q", c08lib.Source(pe[0])), Order: order,
								Detail: map[string]interface{}{"scenario": sc.name, "schedule": fmt.Sprint(schedule), "thread": ti, "returned": got, "later": again}})
						}
					}
					if got != want {
						r.Report(report.Violation{Sub: "scheduler", Kind: "result-differs-from-solo", Witness: fmt.Sprintf("program %q", c08lib.Source(pe[0])), Order: order,
							Detail: map[string]interface{}{"scenario": sc.name, "schedule": fmt.Sprint(schedule), "thread": ti, "expected": want, "observed": got}})
					}
				}
			}
			if after := snap.String(x.progs); after != x.before {
				if usesSync {
					deferred = append(deferred, report.Violation{Sub: "scheduler", Kind: "shared-program-modified", Witness: c08Diff(x.before, after), Order: order,
						Detail: map[string]interface{}{"scenario": sc.name, "schedule": fmt.Sprint(schedule), "note": "the library uses package sync: reported because the race pass also reported"}})
					return
				}
				r.Report(report.Violation{Sub: "scheduler", Kind: "shared-program-modified", Witness: c08Diff(x.before, after), Order: order,
					Detail: map[string]interface{}{"scenario": sc.name, "schedule": fmt.Sprint(schedule)}})
			}
			if globalsSnap != nil {
				if g := globalsSnap(); g != globalsBefore {
					r.Report(report.Violation{Sub: "scheduler", Kind: "package-level-state-modified", Witness: c08Diff(globalsBefore, g), Order: order,
						Detail: map[string]interface{}{"scenario": sc.name, "schedule": fmt.Sprint(schedule)}})
					globalsBefore = g
				}
			}
			if s := snap.String(envs); s != envSnap {
				r.Report(report.Violation{Sub: "scheduler", Kind: "shared-environment-modified", Witness: sc.name, Order: order,
					Detail: map[string]interface{}{"schedule": fmt.Sprint(schedule)}})
				envSnap = s
			}
		}
		// determinism gate: one recorded schedule replayed twice must give identical observations
		if si == 0 {
			x1, s1 := ex.Replay([]int{0, 1, 0, 1, 1})
			x2, s2 := ex.Replay([]int{0, 1, 0, 1, 1})
			if fmt.Sprint(s1) != fmt.Sprint(s2) || fmt.Sprint(x1.(*c08Exec).threads[0].results) != fmt.Sprint(x2.(*c08Exec).threads[0].results) {
				r.Note("replaying one schedule twice gave different observations: nondeterminism not under control, scheduler results not trusted")
				exhaustive = false
				break
			}
		}
		ex.Explore()
		schedules += ex.Schedules
		steps += ex.Steps
		if ex.Capped {
			exhaustive = false
		}
		if si < 3 {
			r.Sample(map[string]interface{}{"scenario": sc.name, "threads": len(sc.threads), "preemption_bound": bound, "schedules": ex.Schedules})
		}
	}
	// concurrent Compile calls, interleaved at the visitor / const-expr seams
	cs, cst, ccap := c08CompileScenarios(r, &order)
	schedules += cs
	steps += cst
	if ccap {
		exhaustive = false
	}
	r.Set("compile_schedules", cs)
	if globalsSnap != nil {
		if g := globalsSnap(); g != globalsBefore {
			r.Report(report.Violation{Sub: "scheduler-compile", Kind: "package-level-state-modified", Witness: c08Diff(globalsBefore, g), Order: order})
		}
	}
	// auxiliary pass: free-running goroutines under the race detector
	raceNote := c08RacePass(r)
	if strings.Contains(raceNote, "data race") || strings.Contains(raceNote, "fatal") || strings.Contains(raceNote, "mismatch") {
		for i, v := range deferred {
			if i < 50 {
				r.Report(v)
			}
		}
	}
	r.Set("library_imports_sync", usesSync)
	r.Set("package_level_state_snapshotted", globalsSnap != nil)
	r.Set("states", schedules)
	r.Set("transitions", steps)
	r.Set("traces_validated_against_impl", schedules)
	r.Set("evaluations", schedules)
	r.Set("schedules", schedules)
	r.Set("distinct_nontrivial", int64(len(outcomes)))
	r.Set("race_pass", raceNote)
	r.Set("exhaustive", exhaustive)
	r.Set("rule", "every interleaving at instruction granularity with at most b preemptions (2 threads: b=2, 3 threads: b=1; thorough b+1) of VM threads running fresh shared program instances (regexp, lookup-map, folded slice, call-descriptor constants, nested scopes, ranges, dynamic patterns, a failing run on a multi-line source) on two shared read-only environments; states = complete schedules, transitions = instructions executed; distinct_nontrivial = distinct run results observed (one per program and environment on a correct tree: the threads share nothing mutable)")
	r.Assume("scheduling points are instruction boundaries (vm.Debug() seam); accesses between two scheduling points are invisible to the scheduler and are covered only by the auxiliary free-running pass under the race detector (not model checking, declared as such)")
	r.Assume("concurrent Compile calls are interleaved at the seams Compile offers without source changes (a Patch visitor that yields at every node, i.e. between the first check, each visited node and the second check/optimizer/compiler); finer interleavings of Compile are covered only by the auxiliary race pass")
	r.Assume("package-level variables of every library package are snapshotted after every schedule through accessors generated into a build overlay from the sources under test (package_level_state_snapshotted says whether that build was available)")
}

func c08Diff(a, b string) string {
	i := 0
	for i < len(a) && i < len(b) && a[i] == b[i] {
		i++
	}
	lo := i - 60
	if lo < 0 {
		lo = 0
	}
	// name the struct field path roughly: the last 'name=' before the difference
	ctx := a[lo:i]
	if k := strings.LastIndex(ctx, ";"); k >= 0 {
		ctx = ctx[k+1:]
	}
	if k := strings.Index(ctx, "="); k >= 0 {
		ctx = ctx[:k]
	}
	return "field " + ctx
}

// c08RacePass builds cmd/racer with -race from the checker's own module and runs it.
func c08RacePass(r *report.Run) string {
	mcDir := report.McDir()
	if _, err := os.Stat(filepath.Join(mcDir, "cmd", "racer")); err != nil {
		return "skipped: checker sources not found at " + mcDir
	}
	bin := filepath.Join(report.Root, "bin", fmt.Sprintf("racer.%d", os.Getpid()))
	defer os.Remove(bin)
	build := exec.Command("go", "build", "-race", "-o", bin, "./cmd/racer")
	build.Dir = mcDir
	if out, err := build.CombinedOutput(); err != nil {
		return "skipped: -race build failed: " + lastLines(string(out), 2)
	}
	rounds := "15"
	if r.Tier == "thorough" {
		rounds = "80"
	}
	cmd := exec.Command(bin, rounds)
	cmd.Env = append(os.Environ(), "GORACE=halt_on_error=0 exitcode=66")
	done := make(chan struct{})
	var out []byte
	var err error
	go func() { out, err = cmd.CombinedOutput(); close(done) }()
	select {
	case <-done:
	case <-time.After(10 * time.Minute):
		cmd.Process.Kill()
		<-done
		return "inconclusive: race pass did not finish in 10 minutes"
	}
	s := string(out)
	switch {
	case strings.Contains(s, "WARNING: DATA RACE"):
		// witness: the first library frame of the first report
		w := "data race"
		for _, line := range strings.Split(s, "\n") {
			if strings.Contains(line, "github.com/antonmedv/expr") && strings.Contains(line, "()") {
				w = strings.TrimSpace(line)
				break
			}
		}
		r.Report(report.Violation{Sub: "race-pass", Kind: "data-race", Witness: w, Order: 1 << 50, Detail: map[string]interface{}{"report": lastLines(s, 25)}})
		return "data race reported"
	case strings.Contains(s, "fatal error: concurrent map"):
		r.Report(report.Violation{Sub: "race-pass", Kind: "concurrent-map-access", Witness: "runtime fatal error", Order: 1 << 50, Detail: map[string]interface{}{"report": lastLines(s, 12)}})
		return "fatal concurrent map access"
	case strings.Contains(s, "RACER-MISMATCH"):
		r.Report(report.Violation{Sub: "race-pass", Kind: "result-differs-from-solo", Witness: lastLines(s, 1), Order: 1 << 50, Detail: map[string]interface{}{"report": lastLines(s, 6)}})
		return "mismatch"
	case strings.Contains(s, "RACER-OK"):
		return "ok: " + rounds + " rounds x 8 goroutines, no race reported"
	case err != nil:
		r.Report(report.Violation{Sub: "race-pass", Kind: "process-died", Witness: "racer", Order: 1 << 50, Detail: map[string]interface{}{"report": lastLines(s, 12), "exit": fmt.Sprint(err)}})
		return "died"
	}
	return "inconclusive"
}

// libraryImportsSync scans the non-test sources of the library for imports of sync or
// sync/atomic. Without them every write to shared state during a run is unsynchronised.
func libraryImportsSync() bool {
	root := "/repo"
	if r := os.Getenv("VERIF_REPO"); r != "" {
		root = r
	} else if b, err := os.ReadFile(filepath.Join(report.McDir(), "go.mod")); err == nil {
		for _, line := range strings.Split(string(b), "\n") {
			if strings.HasPrefix(strings.TrimSpace(line), "replace github.com/antonmedv/expr =>") {
				f := strings.Fields(line)
				root = f[len(f)-1]
			}
		}
	}
	found := false
	filepath.Walk(root, func(path string, info os.FileInfo, err error) error {
		if err != nil || info.IsDir() || !strings.HasSuffix(path, ".go") || strings.HasSuffix(path, "_test.go") || strings.Contains(path, "/docs/") || strings.Contains(path, "/cmd/") {
			return nil
		}
		b, err := os.ReadFile(path)
		if err != nil {
			return nil
		}
		src := string(b)
		if i := strings.Index(src, "\nfunc "); i > 0 {
			src = src[:i]
		}
		if strings.Contains(src, "\"sync\"") || strings.Contains(src, "\"sync/atomic\"") {
			found = true
		}
		return nil
	})
	return found
}
