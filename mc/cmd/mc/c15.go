package main

import (
	"fmt"
	"strings"

	"github.com/antonmedv/expr/vm"

	"verif/mc/gen"
	"verif/mc/henv"
	"verif/mc/lib"
	"verif/mc/report"
)

// C15: type information only rejects; it never changes meaning. Differential over
// {Eval, Compile without Env, Env(struct), Env(*struct), Env(map), Env(map)+AllowUndefinedVariables}:
// all variants that succeed must return equal results, for every expression and value.

var c15Modes = []lib.Mode{{Env: "eval"}, {Env: "noenv", Opt: true}, {Env: "struct", Opt: true}, {Env: "ptr", Opt: true}, {Env: "map", Opt: true}, {Env: "mapundef", Opt: true}, {Env: "struct", Opt: false}}

func c15Oracle(e *gen.Expr, only string) (out []mismatch, runs int64, outcomes []string) {
	src := e.String()
	vals := henv.Valuations(gen.Vars(e))
	names := gen.Names(e)
	dyn := usesDynamicMember(e)
	progs := make([]*vm.Program, len(c15Modes))
	for i, m := range c15Modes {
		if m.Env == "eval" || (dyn && (m.Env == "map" || m.Env == "mapundef")) {
			continue
		}
		p, err := lib.Compile(src, m)
		if err == nil {
			progs[i] = p
		} else if _, ok := err.(*lib.PanicError); ok && only == "" {
			out = append(out, mismatch{m.String(), "compile-panic", henv.Val{}, err.Error()})
		}
	}
	seen := map[string]bool{}
	for vi, v := range vals {
		type res struct {
			mode string
			norm string
			log  string
		}
		var oks []res
		for i, m := range c15Modes {
			var got interface{}
			var err error
			env := henv.Make(v)
			if m.Env == "eval" {
				got, err = lib.Eval(src, m.RunEnv(env, names))
			} else if progs[i] != nil {
				got, err = lib.Run(progs[i], m.RunEnv(env, names))
			} else {
				continue
			}
			runs++
			if err == nil {
				oks = append(oks, res{m.String(), henv.Norm(got), env.L.String()})
			}
		}
		for k := 1; k < len(oks); k++ {
			kind := ""
			if oks[k].norm != oks[0].norm {
				kind = "value"
			} else if oks[k].log != oks[0].log {
				kind = "calls"
			}
			if kind == "" {
				continue
			}
			pair := oks[0].mode + " vs " + oks[k].mode
			if only != "" && only != pair+"|"+kind {
				continue
			}
			if !seen[pair+kind] {
				seen[pair+kind] = true
				out = append(out, mismatch{pair, kind, v, fmt.Sprintf("%s: %s [%s]; %s: %s [%s]", oks[0].mode, oks[0].norm, oks[0].log, oks[k].mode, oks[k].norm, oks[k].log)})
			}
		}
		if only == "" && vi < 3 && len(oks) > 0 {
			outcomes = append(outcomes, oks[0].norm)
		}
	}
	return
}

func init() { checks["C15"] = c15 }

func c15(r *report.Run) {
	slices := []*slice{sliceControl(), sliceScalar(), sliceAccess(), sliceLoops(), sliceNamed(), sliceNestType(), sliceAliases(), func() *slice { s := sliceCalls(); s.maxN = map[string]int{"quick": 5, "thorough": 6}; return s }(),
		func() *slice { s := sliceKinds(); s.maxN = map[string]int{"quick": 4, "thorough": 5}; return s }()}
	runSlices(r, slices, func(sl *slice, e *gen.Expr, order int64) (int64, []string) {
		ms, runs, outs := c15Oracle(e, "")
		for _, m := range ms {
			m := m
			w := sl.g.Shrink(e, func(c *gen.Expr) bool {
				x, _, _ := c15Oracle(c, m.mode+"|"+m.kind)
				return len(x) > 0
			})
			x, _, _ := c15Oracle(w, m.mode+"|"+m.kind)
			d := m
			if len(x) > 0 {
				d = x[0]
			}
			r.Report(report.Violation{Sub: m.mode, Kind: m.kind, Witness: w.String(), Order: order,
				Detail: map[string]interface{}{"slice": sl.name, "source": e.String(), "minimal_source": w.String(), "env": d.val.Describe(), "what": d.detail}})
		}
		return runs, outs
	})
	// a few shapes outside the node budgets (literal arrays with signed literals, chains)
	rawOrder := int64(1) << 42
	var rawSrcs []string
	for _, v := range []string{"I8", "U8", "I64", "U", "F32", "F", "MI", "O.N", "P?.N"} {
		for _, rg := range []string{"1..300", "0..256", "-200..200", "1..3", "200..300"} {
			rawSrcs = append(rawSrcs, v+" in "+rg, v+" not in "+rg, "any(["+v+"], {# in "+rg+"})")
		}
		rawSrcs = append(rawSrcs, v+" in [1, 200, 300]", v+" == 1", "("+v+" == nil) == (nil == "+v+")", "(B ? nil : "+v+") == nil", "(B ? nil : "+v+") != nil")
	}
	// pointer members against literals; arithmetic over an interface{} member against literal ranges (struct variants only:
	// a map environment types its members from the sample value)
	rawSrcs = append(rawSrcs, "PI == 250", "250 == PI", "PI != 250", "PI in [250, 1]", `PS == "a"`, `PS != "a"`, `PS in ["a"]`, "PI == nil", "PI == PI",
		`"hidden" in OV`, `"N" in OV`, `"zz" in OV`, `"hidden" not in OV`, `"Name" in OV and "hidden" in OV`, `"hidden" in O`, "X + 1 + 2", "X + 1 + 2 == X + 3", "I64 in 250..250", "X in 250..250", "len(3..3)", "any(3..3, {# == 3})", "MI in 250..250", "(X + 1) in 1..300", "(X + 1) not in 1..300", "(I * X) in 1..300", "(X - 1) in [249, 1]", "-X in -300..0", "X + 1 == 251", "(B ? 1 : X) in 1..300", "X in 1..300")
	for _, inner := range []string{"count(A, {# > 0}) > 0", "all(A, {# > 0 - 9})", "any(A, {# > 0 - 9}) or true", "none(A, {# > 99})", "one(A, {# == 1}) or true", "len(filter(A, {# > 0})) >= 0", "len(map(A, {# + 1})) >= 0"} {
		for _, outer := range []string{"filter(FA, {%s and # in 1..3})", "map(FA, {%s and # in [1, 2, 3]})", "count(FA, {%s and # == 2}) + 0", "all(SA, {%s and len(#) >= 0})", "filter(FA, {# in 1..3 and %s})"} {
			rawSrcs = append(rawSrcs, fmt.Sprintf(outer, inner))
		}
	}
	rawSrcs = append(rawSrcs, "any(map(AA, {map(#, {# * 2})}), {any(#, {# in 1..3})})", "map(map(AA, {map(#, {# * 2})}), {filter(#, {# in [1, 2, 3]})})", "count(map(AA, {map(#, {# + 1})}), {count(#, {# in 2..9}) > 0})")
	for _, src := range append(rawSrcs, []string{"I in [-(-1), 5]", "I in [- -1, 3]", "I not in [-(+(-1))]", "I in [+1, -(-(-1))]", "I in [1, -1]", "J in [-1, -(-2)]", `S in ["a", "a" + "b"]`,
		"F + J / 2", "F * (I / 2) + J", "I64 % 3 == 1", "I8 % 2 == 1", "F32 + 1 + 1", "MI == 1 or MI == 0", `MS == "a"`}...) {
		rawOrder++
		type res struct{ mode, norm string }
		var oks []res
		for vi := 0; vi < 4; vi++ {
			oks = oks[:0]
			for _, m := range c15Modes {
				if strings.Contains(src, "X") && (m.Env == "map" || m.Env == "mapundef") {
					continue
				}
				mkEnv := func() *henv.Env {
					e := henv.MakeFull(henv.Val{})
					e.I, e.J = []int{1, 2, -1, 250}[vi], []int{2, -2, 3, 1}[vi]
					e.I8, e.U8, e.I64, e.U, e.F32, e.F = []int8{50, -128, 1, 2}[vi], []uint8{200, 255, 1, 2}[vi], []int64{250, 1 << 40, 1, 2}[vi], []uint{250, 0, 1, 2}[vi], []float32{250, 0.5, 1, 2}[vi], []float64{250, 0.5, 1, 2}[vi]
					e.X, e.MI, e.B = []interface{}{int8(50), 250.0, nil, 1.0}[vi], []henv.MyInt{250, 0, 1, 2}[vi], vi != 1
					if vi == 2 {
						e.P, e.O = nil, nil
					} else {
						pi, ps := []int{250, 7, 0, 250}[vi], []string{"a", "b", "", "a"}[vi]
						e.PI, e.PS = &pi, &ps
					}
					if strings.Contains(src, "X") {
						e.X = []interface{}{249.5, 250, 1e16, 250.0}[vi]
					}
					e.FA = [][]float64{{1.5, 2, 7.5}, {}, {0.5, 3}, {2}}[vi]
					e.AA = []interface{}{[]interface{}{0.75}, []interface{}{8}}
					return e
				}
				var got interface{}
				var err error
				if m.Env == "eval" {
					got, err = lib.Eval(src, m.RunEnv(mkEnv(), nil))
				} else {
					p, cerr := lib.Compile(src, m)
					if cerr != nil {
						continue
					}
					got, err = lib.Run(p, m.RunEnv(mkEnv(), nil))
				}
				if err == nil {
					oks = append(oks, res{m.String(), henv.Norm(got)})
				}
			}
			for k := 1; k < len(oks); k++ {
				if oks[k].norm != oks[0].norm {
					r.Report(report.Violation{Sub: oks[0].mode + " vs " + oks[k].mode, Kind: "value", Witness: src, Order: rawOrder,
						Detail: map[string]interface{}{"source": src, "what": oks[0].mode + ": " + oks[0].norm + "; " + oks[k].mode + ": " + oks[k].norm}})
					break
				}
			}
		}
	}
	r.Assume("differential oracle between compile/eval variants; only variants that succeed are compared (the property allows a variant to reject or fail)")
	r.Assume("interface{}-typed members are used only with struct environments (a map environment types its members from sample values)")
}

// named: members of named numeric/string types, sized kinds and calls that retype literals.
func sliceNamed() *slice {
	T := gen.TBool
	rules := []*gen.Rule{
		gen.Var("MI", gen.TMyInt), gen.Var("MS", gen.TMyStr), gen.Var("I", gen.TInt), gen.Var("S", gen.TStr),
		gen.Var("I8", gen.TI8), gen.Var("U8", gen.TU8), gen.Var("I64", gen.TI64), gen.Var("F32", gen.TF32), gen.Var("U", gen.TU), gen.Var("F", gen.TFloat),
		gen.Lit("1", gen.TInt, 1), gen.Lit("2", gen.TInt, 2), gen.Lit(`"a"`, gen.TStr, "a"), gen.Lit("1.5", gen.TFloat, 1.5),
		gen.Var("X", gen.TAny), gen.Var("Y", gen.TAny),
		gen.Bin("==", gen.TAny, gen.TInt, T), gen.Bin("==", gen.TAny, gen.TAny, T), gen.Bin("+", gen.TAny, gen.TInt, gen.TAny), gen.Bin("<", gen.TAny, gen.TAny, T),
		gen.Bin("==", gen.TAny, gen.TStr, T), gen.Bin("+", gen.TAny, gen.TAny, gen.TAny),
		gen.CondMixed(gen.TInt, gen.TAny, gen.TAny), gen.CondMixed(gen.TAny, gen.TInt, gen.TAny), gen.Var("B", T),
		gen.Call("TakesAny", gen.TAny, gen.TAny), gen.Call("Fast", gen.TAny, gen.TAny, gen.TInt), gen.Call("Fast", gen.TAny, gen.TInt),
		gen.Call("Pack", gen.TAny, gen.TInt), gen.Call("Pack", gen.TAny, gen.TInt, gen.TInt),
		gen.Arr(gen.TAny, gen.TAny), gen.Arr(gen.TInt), gen.Bin("==", gen.TAnyArr, gen.TAnyArr, T), gen.Index(gen.TAnyArr, gen.TInt, gen.TAny),
	}
	nums := []gen.Ty{gen.TInt, gen.TI8, gen.TU8, gen.TI64, gen.TF32, gen.TU, gen.TFloat}
	for _, a := range nums {
		for _, b := range nums {
			if a == gen.TInt || b == gen.TInt || a == b {
				rules = append(rules, gen.Bin("==", a, b, T), gen.Bin("<", a, b, T))
			}
		}
		rules = append(rules, gen.Bin("+", a, gen.TInt, gen.TAny), gen.Bin("==", gen.TAny, a, T), gen.Un("-", a, a))
	}
	rules = append(rules,
		gen.Bin("==", gen.TMyInt, gen.TMyInt, T), gen.Bin("==", gen.TMyInt, gen.TInt, T), gen.Bin("==", gen.TMyStr, gen.TMyStr, T), gen.Bin("==", gen.TMyStr, gen.TStr, T),
		gen.Bin("==", gen.TStr, gen.TStr, T), gen.Bin("in", gen.TMyInt, gen.TAnyArr, T), gen.Arr(gen.TMyInt), gen.Arr(gen.TInt, gen.TMyInt),
		gen.Call("TakesI8", gen.TI8, gen.TInt), gen.Call("TakesU8", gen.TU8, gen.TInt), gen.Call("TakesI64", gen.TI64, gen.TInt), gen.Call("TakesF64", gen.TFloat, gen.TInt),
		gen.Call("TakesI8", gen.TI8, gen.TI8), gen.Call("TakesI64", gen.TI64, gen.TI64),
	)
	return &slice{name: "named", g: gen.NewGrammar(rules),
		tops:  []gen.NT{nt(T), nt(gen.TAny), nt(gen.TI8), nt(gen.TU8), nt(gen.TI64), nt(gen.TFloat), nt(gen.TAnyArr)},
		modes: nil, maxN: map[string]int{"quick": 6, "thorough": 7}}
}
