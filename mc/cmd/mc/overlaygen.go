package main

import (
	"fmt"
	"os"
	"os/exec"
	"path/filepath"
	"strings"

	"verif/mc/overlay"
	"verif/mc/report"
)

// libraryRoot returns the directory of the library the checker is built against.
func libraryRoot() string {
	root := "/repo"
	if r := os.Getenv("VERIF_REPO"); r != "" {
		return r
	}
	if b, err := os.ReadFile(filepath.Join(report.McDir(), "go.mod")); err == nil {
		for _, line := range strings.Split(string(b), "\n") {
			if strings.HasPrefix(strings.TrimSpace(line), "replace github.com/antonmedv/expr =>") {
				f := strings.Fields(line)
				root = f[len(f)-1]
			}
		}
	}
	return root
}

// buildVerifBinary generates the overlay from the current library sources and builds the
// checker with -tags verif -overlay. It returns the binary path, the overlay description
// and a cleanup function.
func buildVerifBinary() (bin string, res *overlay.Result, cleanup func(), err error) {
	dir, err := os.MkdirTemp("", "verif-overlay-")
	if err != nil {
		return "", nil, func() {}, err
	}
	cleanup = func() { os.RemoveAll(dir) }
	res, err = overlay.Generate(libraryRoot(), dir)
	if err != nil {
		return "", nil, cleanup, err
	}
	bin = filepath.Join(dir, "mc-verif")
	cmd := exec.Command("go", "build", "-tags", "verif", "-overlay", res.OverlayFile, "-o", bin, "./cmd/mc")
	cmd.Dir = report.McDir()
	if out, berr := cmd.CombinedOutput(); berr != nil {
		return "", res, cleanup, fmt.Errorf("overlay build failed: %s", lastLines(string(out), 6))
	}
	return bin, res, cleanup, nil
}

func init() {
	checks["overlay-gen"] = func(r *report.Run) {
		res, err := overlay.Generate(libraryRoot(), "/tmp/verif-overlay-debug")
		fmt.Println(err)
		if res != nil {
			fmt.Println("sites:", res.Sites, "unseamed:", res.Unseamed)
			for k, v := range res.Globals {
				fmt.Println("globals", k, v)
			}
		}
	}
}
