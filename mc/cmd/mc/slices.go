package main

import (
	. "verif/mc/gen"
	"verif/mc/lib"
)

// A slice is a sub-alphabet of the language with its top-level nonterminals.
type slice struct {
	name  string
	g     *Grammar
	tops  []NT
	modes []lib.Mode
	maxN  map[string]int // tier -> node budget
}

func nt(t Ty) NT { return NT{T: t, Elem: TNone} }

func numPairs(f func(l, r, out Ty)) {
	f(TInt, TInt, TInt)
	f(TInt, TFloat, TFloat)
	f(TFloat, TInt, TFloat)
	f(TFloat, TFloat, TFloat)
}

// control: logging booleans, connectives, conditionals, calls.
func sliceControl() *slice {
	rules := []*Rule{
		Var("B", TBool), Call("T1", TBool), Call("F1", TBool), Call("T2", TBool), Call("F2", TBool),
		Lit("true", TBool, true), Lit("false", TBool, false),
		Lit("1", TInt, 1), Var("I", TInt),
		Un("not", TBool, TBool),
		Bin("and", TBool, TBool, TBool), Bin("or", TBool, TBool, TBool),
		Bin("==", TBool, TBool, TBool), Bin("<", TInt, TInt, TBool),
		Cond(TBool), Cond(TInt),
		Call("Id", TInt, TInt), Call("Pos", TBool, TInt), Call("Add", TInt, TInt, TInt),
	}
	return &slice{name: "control", g: NewGrammar(rules), tops: []NT{nt(TBool), nt(TInt)}, modes: lib.AllModes,
		maxN: map[string]int{"quick": 6, "thorough": 8}}
}

// scalar: arithmetic, comparison, string and membership operators.
func sliceScalar() *slice {
	rules := []*Rule{
		Lit("1", TInt, 1), Lit("3", TInt, 3), Lit("0", TInt, 0), Var("I", TInt), Var("J", TInt),
		Lit("1.5", TFloat, 1.5), Var("F", TFloat),
		Lit(`"a"`, TStr, "a"), Var("S", TStr), Var("T", TStr),
		Var("A", TIntArr), Var("SA", TStrArr), Var("M", TMap),
		Un("-", TInt, TInt), Un("-", TFloat, TFloat), Un("+", TInt, TInt),
		Call("GetInt", TInt), Call("Id", TInt, TInt),
	}
	for _, o := range []string{"+", "-", "*", "/"} {
		o := o
		numPairs(func(l, r, out Ty) { rules = append(rules, Bin(o, l, r, out)) })
	}
	rules = append(rules, Bin("%", TInt, TInt, TInt))
	numPairs(func(l, r, out Ty) { rules = append(rules, Bin("**", l, r, TFloat)) })
	for _, o := range []string{"==", "!=", "<", "<=", ">", ">="} {
		o := o
		numPairs(func(l, r, out Ty) { rules = append(rules, Bin(o, l, r, TBool)) })
		rules = append(rules, Bin(o, TStr, TStr, TBool))
	}
	rules = append(rules,
		Bin("+", TStr, TStr, TStr),
		Bin("contains", TStr, TStr, TBool), Bin("startsWith", TStr, TStr, TBool), Bin("endsWith", TStr, TStr, TBool),
		Bin("matches", TStr, TStr, TBool),
		Bin("in", TInt, TIntArr, TBool), Bin("not in", TInt, TIntArr, TBool), Bin("in", TFloat, TIntArr, TBool),
		Bin("in", TStr, TStrArr, TBool), Bin("in", TStr, TMap, TBool), Bin("not in", TStr, TMap, TBool),
		Bin("..", TInt, TInt, TIntArr),
		Bin("==", TIntArr, TIntArr, TBool),
		Len(TIntArr), Len(TStr), Len(TMap),
		ArrAs(TIntArr, TInt, TInt), ArrAs(TStrArr, TStr),
	)
	return &slice{name: "scalar", g: NewGrammar(rules), tops: []NT{nt(TBool), nt(TInt), nt(TFloat), nt(TStr), nt(TIntArr)}, modes: lib.AllModes,
		maxN: map[string]int{"quick": 5, "thorough": 6}}
}

// access: indexing, slicing, properties, nil-safe navigation, methods, calls, literals.
func sliceAccess() *slice {
	rules := []*Rule{
		Var("I", TInt), Lit("1", TInt, 1), Lit("0", TInt, 0), Var("J", TInt),
		Var("S", TStr), Lit(`"a"`, TStr, "a"),
		Var("A", TIntArr), Var("SA", TStrArr), Var("M", TMap), Var("MA", TAnyMap),
		Var("O", TObj), Var("P", TObj), Var("OS", TObjArr),
		Lit("nil", TNil, nil),
		Index(TIntArr, TInt, TInt), Index(TStrArr, TInt, TStr), Index(TMap, TStr, TInt), Index(TObjArr, TInt, TObj),
		Slice("ft", TIntArr), Slice("f", TIntArr), Slice("t", TIntArr), Slice("", TIntArr),
		Slice("ft", TStr), Slice("f", TStr), Slice("t", TStr),
		Prop(TObj, "N", TInt, false), Prop(TObj, "Name", TStr, false), Prop(TObj, "Next", TObj, false),
		Prop(TObj, "N", TAny, true), Prop(TObj, "Next", TObj, true),
		Prop(TMap, "a", TInt, false), Prop(TAnyMap, "s", TAny, false),
		Method(TObj, "Get", TInt, false), Method(TObj, "Plus", TInt, false, TInt), Method(TObj, "Title", TStr, false),
		Method(TObj, "Label", TStr, false), Method(TObj, "Label", TAny, true), Method(TObj, "Get", TAny, true),
		Call("Sum", TInt), Call("Sum", TInt, TInt), Call("Sum", TInt, TInt, TInt),
		Call("Fast", TAny), Call("Fast", TAny, TInt), Call("Fast", TAny, TStr, TInt),
		Call("FnInc", TInt, TInt), Call("Add", TInt, TInt, TInt), Call("Cat", TStr, TStr, TStr), Call("IsNil", TBool, TNil), Call("IsNil", TBool, TObj),
		Call("Plus", TInt, TInt, TInt), Call("Get", TInt, TInt), // same names as methods of Obj, other arities
		Call("PickV", TAny, TInt, TInt, TStr), Call("PickV", TAny, TInt),
		Call("Second", TAny, TInt, TNil), Call("Second", TAny, TNil, TInt), Call("Second", TAny, TStr, TObj), Method(TObj, "Pick", TAny, false, TInt, TNil),
		Arr(), Arr(TInt), Arr(TInt, TStr), Arr(TObj),
		MapLit([]string{"a"}, TInt), MapLit([]string{"a", "b"}, TInt, TStr),
		Len(TIntArr), Len(TAnyArr), Len(TStr), Len(TAnyMap),
		Bin("==", TObj, TNil, TBool), Bin("==", TAny, TNil, TBool), Bin("+", TInt, TInt, TInt),
		Lit(`"N"`, TMyStr, "N"), Lit(`"zz"`, TMyStr, "zz"), Lit(`"hidden"`, TMyStr, "hidden"), Bin("in", TMyStr, TObj, TBool), Bin("not in", TMyStr, TObj, TBool), // TMyStr: field-name literals only
		Var("X", TFunc), {Op: "cond", Out: TInt, In: []Slot{{T: TFunc, Operand: true, Closure: -1}, // TFunc: only the dynamic member X can be this condition
			{T: TInt, Operand: true, Closure: -1}, {T: TInt, Operand: true, Closure: -1}}, Fmt: "%s ? %s : %s"},
	}
	return &slice{name: "access", g: NewGrammar(rules), tops: []NT{nt(TInt), nt(TStr), nt(TObj), nt(TIntArr), nt(TAnyArr), nt(TAnyMap), nt(TBool), nt(TAny)}, modes: lib.AllModes,
		maxN: map[string]int{"quick": 5, "thorough": 7}}
}

// loops: the seven closure builtins, nested, over members, ranges and builtin results.
func sliceLoops() *slice {
	rules := []*Rule{
		Var("A", TIntArr), Var("OS", TObjArr),
		Var("I", TInt), Lit("1", TInt, 1), Lit("2", TInt, 2),
		Hash(TInt), HashProp("N", TInt),
		Bin("..", TInt, TInt, TIntArr),
		Bin(">", TInt, TInt, TBool), Bin("==", TInt, TInt, TBool), Bin("+", TInt, TInt, TInt), Bin("%", TInt, TInt, TInt),
		Un("not", TBool, TBool), Bin("and", TBool, TBool, TBool),
		Call("Pos", TBool, TInt), Call("Id", TInt, TInt), Call("T1", TBool), Call("F1", TBool),
		Len(TIntArr),
	}
	for _, b := range []string{"all", "none", "any", "one"} {
		rules = append(rules, Builtin(b, TIntArr, TBool, TBool), Builtin(b, TObjArr, TBool, TBool))
	}
	rules = append(rules,
		Builtin("count", TIntArr, TBool, TInt), Builtin("count", TObjArr, TBool, TInt),
		Builtin("filter", TIntArr, TBool, TIntArr), Builtin("filter", TObjArr, TBool, TObjArr),
		Builtin("map", TIntArr, TInt, TIntArr), Builtin("map", TObjArr, TInt, TIntArr),
	)
	return &slice{name: "loops", g: NewGrammar(rules), tops: []NT{nt(TBool), nt(TInt), nt(TIntArr)}, modes: lib.AllModes,
		maxN: map[string]int{"quick": 7, "thorough": 8}}
}

// alloc: allocating constructs only, with run-time bounds so that nothing is folded at compile time.
func sliceAlloc() *slice {
	rules := []*Rule{
		Var("I", TInt), Var("J", TInt), Hash(TInt),
		Bin("..", TInt, TInt, TIntArr),
		Var("I64", TI64), Var("U8", TU8), Bin("..", TInt, TI64, TIntArr), Bin("..", TU8, TInt, TIntArr), Bin("..", TI64, TU8, TIntArr),
		Arr(TInt), Arr(TInt, TInt), Arr(TInt, TInt, TInt), Arr(TIntArr), Arr(TIntArr, TIntArr), Arr(TAnyArr), Arr(TAnyMap, TInt), Arr(),
		MapLit([]string{"a"}, TInt), MapLit([]string{"a", "b"}, TIntArr, TInt), MapLit([]string{"a", "b", "c"}, TInt, TInt, TAnyArr), MapLit([]string{"a"}, TAnyArr),
		Builtin("map", TIntArr, TInt, TIntArr), Builtin("filter", TIntArr, TBool, TIntArr), Builtin("map", TIntArr, TAnyArr, TAnyArr), Builtin("map", TIntArr, TIntArr, TAnyArr),
		Builtin("count", TIntArr, TBool, TInt), Builtin("all", TIntArr, TBool, TBool),
		Len(TIntArr), Len(TAnyArr), Len(TAnyMap),
		Bin(">", TInt, TInt, TBool), Bin("+", TInt, TInt, TInt),
	}
	return &slice{name: "alloc", g: NewGrammar(rules), tops: []NT{nt(TIntArr), nt(TAnyArr), nt(TAnyMap), nt(TInt), nt(TBool)},
		modes: []lib.Mode{{Env: "struct", Opt: true}, {Env: "struct", Opt: false}, {Env: "noenv", Opt: true}},
		maxN:  map[string]int{"quick": 7, "thorough": 9}}
}

// optim: every context in which an optimizer rewrite can fire.
func sliceOptim() *slice {
	rules := []*Rule{
		Lit("1", TInt, 1), Lit("2", TInt, 2), Lit("0", TInt, 0), Lit("3", TInt, 3), Lit("257", TInt, 257), Var("I", TInt),
		Lit("1.5", TFloat, 1.5), Var("F", TFloat),
		Lit(`"a"`, TStr, "a"), Lit(`"b"`, TStr, "b"), Var("S", TStr),
		Lit("nil", TNil, nil), Var("X", TAny), Var("I8", TI8), Var("U8", TU8), Var("I64", TI64),
		Var("A", TIntArr),
		Un("-", TInt, TInt), Un("+", TInt, TInt),
		Bin("+", TInt, TInt, TInt), Bin("-", TInt, TInt, TInt), Bin("*", TInt, TInt, TInt), Bin("/", TInt, TInt, TInt), Bin("%", TInt, TInt, TInt),
		Bin("**", TInt, TInt, TFloat), Bin("+", TInt, TFloat, TFloat), Bin("/", TFloat, TInt, TFloat),
		Bin("+", TStr, TStr, TStr),
		ArrAs(TIntArr, TInt), ArrAs(TIntArr, TInt, TInt), ArrAs(TStrArr, TStr), ArrAs(TStrArr, TStr, TStr), Arr(TInt, TStr), Arr(),
		Bin("..", TInt, TInt, TIntArr),
		Bin("==", TIntArr, TIntArr, TBool), Bin("==", TFloat, TInt, TBool), Bin("==", TInt, TFloat, TBool),
		Len(TIntArr), Len(TStrArr), Len(TAnyArr),
		Call("TakesI8", TI8, TInt), Call("TakesU8", TU8, TInt), Call("TakesI64", TI64, TInt), Call("TakesF32", TF32, TInt),
		Call("TakesF64", TFloat, TInt), Call("TakesF64", TFloat, TFloat), Call("TakesAny", TAny, TInt), Call("TakesAny", TAny, TIntArr),
		Call("TakesAnyArr", TInt, TAnyArr), Call("TakesAnyArr", TInt, TIntArr), Call("TakesArr", TInt, TIntArr),
		Call("GetInt", TInt), Call("Id", TInt, TInt),
		Cond(TInt), Bin(">", TInt, TInt, TBool),
		Builtin("map", TIntArr, TInt, TIntArr), Builtin("all", TIntArr, TBool, TBool), Hash(TInt),
	}
	for _, o := range []string{"in", "not in"} {
		for _, l := range []Ty{TInt, TI8, TU8, TI64, TFloat, TStr, TNil, TAny} {
			for _, a := range []Ty{TIntArr, TStrArr, TAnyArr} {
				if o == "not in" && a != TIntArr {
					continue
				}
				rules = append(rules, Bin(o, l, a, TBool))
			}
		}
	}
	return &slice{name: "optim", g: NewGrammar(rules),
		tops:  []NT{nt(TBool), nt(TInt), nt(TFloat), nt(TStr), nt(TIntArr), nt(TI8), nt(TU8), nt(TI64), nt(TF32), nt(TAny)},
		modes: []lib.Mode{{Env: "struct"}, {Env: "noenv"}, {Env: "map"}},
		maxN:  map[string]int{"quick": 5, "thorough": 6}}
}

// nesttype: nested builtins over collections of different element types, with
// type-directed code (==, in-range, in-array) on '#' after an inner builtin.
func sliceNestType() *slice {
	rules := []*Rule{
		Lit("true", TBool, true),
		Var("FA", TFloatArr), Var("A", TIntArr), Var("SA", TStrArr),
		Hash(TFloat), Hash(TInt), Hash(TStr),
		Lit("1..3", TIntArr, []int{1, 2, 3}), Lit("[1, 2]", TIntArr, []int{1, 2}), Lit("1", TInt, 1), Lit(`"a"`, TStr, "a"),
		Bin("and", TBool, TBool, TBool),
		Bin("in", TFloat, TIntArr, TBool), Bin("in", TInt, TIntArr, TBool),
		Bin("==", TInt, TInt, TBool), Bin("==", TFloat, TInt, TBool), Bin("==", TStr, TStr, TBool),
		Var("S", TStr), Bin("matches", TStr, TStr, TBool),
	}
	for _, a := range []Ty{TFloatArr, TIntArr, TStrArr} {
		rules = append(rules, Builtin("all", a, TBool, TBool), Builtin("any", a, TBool, TBool), Builtin("count", a, TBool, TInt))
	}
	rules = append(rules, Builtin("filter", TFloatArr, TBool, TFloatArr), Builtin("filter", TIntArr, TBool, TIntArr),
		Builtin("map", TFloatArr, TBool, TAnyArr), Builtin("map", TIntArr, TBool, TAnyArr), Builtin("map", TStrArr, TBool, TAnyArr), Builtin("filter", TStrArr, TBool, TStrArr))
	return &slice{name: "nesttype", g: NewGrammar(rules), tops: []NT{nt(TBool), nt(TFloatArr), nt(TIntArr), nt(TAnyArr), nt(TInt)},
		modes: lib.AllModes, maxN: map[string]int{"quick": 9, "thorough": 10}}
}

// aliases: the symbolic spellings of the logical operators and the remaining comparison forms.
func sliceAliases() *slice {
	rules := []*Rule{
		Var("B", TBool), Call("T1", TBool), Call("F1", TBool), Lit("1", TInt, 1), Var("I", TInt), Var("S", TStr), Lit(`"a"`, TStr, "a"),
		Un("!", TBool, TBool), Bin("&&", TBool, TBool, TBool), Bin("||", TBool, TBool, TBool),
		Bin("!=", TBool, TBool, TBool), Bin("!=", TInt, TInt, TBool), Bin("!=", TStr, TStr, TBool), Bin(">=", TInt, TInt, TBool), Bin("<=", TStr, TStr, TBool),
		Un("+", TInt, TInt), Call("Pos", TBool, TInt),
	}
	return &slice{name: "aliases", g: NewGrammar(rules), tops: []NT{nt(TBool)}, modes: lib.AllModes, maxN: map[string]int{"quick": 5, "thorough": 6}}
}

// kinds: arithmetic, comparison and membership over every numeric kind of the environment, with boundary
// values (2^32, MaxInt64, MinInt64, 2^53, 2^24 as float32); result kinds follow the VM's promotion order.
func sliceKinds() *slice {
	rules := []*Rule{
		Var("I", TInt), Var("H", TInt), Var("F", TFloat), Var("HF", TFloat), Var("I8", TI8), Var("U8", TU8), Var("I64", TI64), Var("F32", TF32), Var("U", TU),
		Lit("1", TInt, 1), Lit("2", TInt, 2), Lit("0.5", TFloat, 0.5), Lit("[1, 2]", TIntArr, []int{1, 2}), Lit("[0, 200]", TIntArr, []int{0, 200}),
		Var("B", TBool), CondMixed(TU8, TInt, TAny), CondMixed(TI8, TFloat, TAny), Un("not", TBool, TBool),
		Lit("2.0", TFloat, 2.0), ArrAs(TAnyArr, TInt, TFloat), ArrAs(TAnyArr, TFloat, TInt), ArrAs(TAnyArr, TI8, TInt, TFloat),
	}
	nums := []Ty{TInt, TFloat, TI8, TU8, TI64, TF32, TU}
	rank := map[Ty]int{TU: 0, TU8: 1, TInt: 5, TI8: 6, TI64: 9, TF32: 10, TFloat: 11}
	for _, a := range nums {
		rules = append(rules, Un("-", a, a), Bin("in", a, TIntArr, TBool))
		for _, b := range nums {
			if !(a == TInt || b == TInt || a == b) {
				continue
			}
			out := a
			if rank[b] > rank[a] {
				out = b
			}
			rules = append(rules, Bin("+", a, b, out), Bin("*", a, b, out), Bin("**", a, b, TFloat), Bin("<", a, b, TBool), Bin("==", a, b, TBool))
		}
	}
	rules = append(rules, Bin("==", TAny, TInt, TBool), Bin("in", TAny, TIntArr, TBool))
	return &slice{name: "kinds", g: NewGrammar(rules), tops: []NT{nt(TBool), nt(TInt), nt(TFloat), nt(TI8), nt(TU8), nt(TI64), nt(TF32), nt(TU), nt(TAnyArr)},
		modes: lib.AllModes, maxN: map[string]int{"quick": 5, "thorough": 6}}
}

// membership: `in` / `not in` against LITERAL ranges and arrays (the shapes the optimizer rewrites), with left operands
// that contain calls at any depth (index expressions, arithmetic, properties of call results, '#').
// TStrArr stands for "literal collection of ints" here, so that only literals appear on the right.
func sliceMembership() *slice {
	rules := []*Rule{
		Var("I", TInt), Lit("1", TInt, 1), Lit("2", TInt, 2), Lit("010", TInt, 10), Var("A", TIntArr), Var("O", TObj), Hash(TInt),
		{Op: "lit", Arg: "1..3", Out: TStrArr, Fmt: "1..3", Extra: []int{1, 2, 3}}, {Op: "lit", Arg: "3..1", Out: TStrArr, Fmt: "3..1", Extra: []int{}},
		Lit("[1, 2]", TStrArr, []int{1, 2}),
		Bin("in", TInt, TStrArr, TBool), Bin("not in", TInt, TStrArr, TBool),
		Call("Id", TInt, TInt), Call("GetInt", TInt), Method(TObj, "Get", TInt, false), Method(TObj, "Plus", TInt, false, TInt),
		Index(TIntArr, TInt, TInt), Prop(TObj, "N", TInt, false), Bin("+", TInt, TInt, TInt), Un("-", TInt, TInt),
		Builtin("count", TIntArr, TBool, TInt), Builtin("filter", TIntArr, TBool, TIntArr), Builtin("map", TIntArr, TInt, TIntArr), Len(TIntArr),
	}
	return &slice{name: "membership", g: NewGrammar(rules), tops: []NT{nt(TBool), nt(TInt), nt(TIntArr)}, modes: lib.AllModes,
		maxN: map[string]int{"quick": 6, "thorough": 7}}
}

// nilin: `in` with a dynamically typed right operand that may be nil, an empty literal, or a collection (bytecode shape
// and stack effect only: used by C05, which needs no reference semantics).
func sliceNilIn() *slice {
	rules := []*Rule{
		Var("I", TInt), Var("S", TStr), Var("X", TAny), Lit("1", TInt, 1), Lit("nil", TNil, nil), Arr(), Var("AA", TAnyArr), Var("MA", TAnyMap),
		Bin("in", TInt, TAny, TBool), Bin("in", TStr, TAny, TBool), Bin("in", TInt, TNil, TBool), Bin("in", TInt, TAnyArr, TBool), Bin("not in", TStr, TAnyArr, TBool), Bin("in", TStr, TAnyMap, TBool),
		Prop(TAnyMap, "zz", TAny, false), Cond(TInt), Bin("+", TInt, TInt, TInt), ArrAs(TAnyArr, TInt, TBool), ArrAs(TAnyArr, TBool, TInt), MapLit([]string{"a", "b"}, TBool, TInt), Bin("==", TBool, TBool, TBool),
	}
	return &slice{name: "nilin", g: NewGrammar(rules), tops: []NT{nt(TBool), nt(TInt), nt(TAnyArr), nt(TAnyMap)}, modes: lib.AllModes, maxN: map[string]int{"quick": 6, "thorough": 7}}
}

// calls: the same name called with different argument counts in one expression (variadic functions, an
// environment function and a method of the same name), and map literals with computed keys.
func sliceCalls() *slice {
	rules := []*Rule{
		Var("I", TInt), Lit("1", TInt, 1), Var("S", TStr), Var("O", TObj),
		Call("Sum", TInt), Call("Sum", TInt, TInt), Call("Sum", TInt, TInt, TInt), Call("Sum", TInt, TInt, TInt, TInt),
		Call("Pack", TAny), Call("Pack", TAny, TInt), Call("Pack", TAny, TStr, TInt),
		Call("Plus", TInt, TInt, TInt), Method(TObj, "Plus", TInt, false, TInt), Call("Get", TInt, TInt), Method(TObj, "Get", TInt, false),
		Bin("+", TInt, TInt, TInt), ArrAs(TAnyArr, TInt, TInt), ArrAs(TAnyArr, TAny, TAny), ArrAs(TAnyArr, TAnyMap, TInt),
		MapComputed([]string{"*"}, TInt), MapComputed([]string{"zq", "*"}, TInt, TInt), MapComputed([]string{"*", "zq"}, TInt, TInt), MapLit([]string{"zq"}, TInt),
		Len(TAnyMap),
	}
	return &slice{name: "calls", g: NewGrammar(rules), tops: []NT{nt(TInt), nt(TAnyArr), nt(TAnyMap)}, modes: lib.AllModes, maxN: map[string]int{"quick": 6, "thorough": 7}}
}

// elvis: the undocumented `a ?: b` form in every operand position (bytecode shape only; it has no reference semantics).
func sliceElvis() *slice {
	rules := []*Rule{
		Var("B", TBool), Var("I", TInt), Lit("1", TInt, 1), Var("A", TIntArr), Hash(TInt), Lit("false", TBool, false), Lit("0", TInt, 0),
		{Op: "elvis", Out: TInt, In: []Slot{{T: TInt, Operand: true, Closure: -1}, {T: TInt, Operand: true, Closure: -1}}, Fmt: "%s ?: %s"},
		{Op: "elvis", Out: TBool, In: []Slot{{T: TBool, Operand: true, Closure: -1}, {T: TBool, Operand: true, Closure: -1}}, Fmt: "%s ?: %s"},
		ArrAs(TAnyArr, TInt, TInt), ArrAs(TAnyArr, TBool, TInt), Call("Id", TInt, TInt), Call("Add", TInt, TInt, TInt), MapLit([]string{"a", "b"}, TBool, TInt),
		Builtin("map", TIntArr, TInt, TIntArr), Builtin("filter", TIntArr, TBool, TIntArr), Bin("+", TInt, TInt, TInt), Bin(">", TInt, TInt, TBool), Un("not", TBool, TBool),
		Cond(TInt), Index(TIntArr, TInt, TInt),
	}
	return &slice{name: "elvis", g: NewGrammar(rules), tops: []NT{nt(TInt), nt(TBool), nt(TAnyArr), nt(TAnyMap), nt(TIntArr)}, modes: lib.AllModes, maxN: map[string]int{"quick": 6, "thorough": 7}}
}
