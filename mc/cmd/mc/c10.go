package main

import (
	"fmt"
	"reflect"
	"strings"

	"github.com/antonmedv/expr"
	"github.com/antonmedv/expr/ast"
	"github.com/antonmedv/expr/parser"
	"github.com/antonmedv/expr/vm"

	"verif/mc/gen"
	"verif/mc/henv"
	"verif/mc/lib"
	"verif/mc/report"
)

// C10: AST traversal reaches every node exactly once. Trees are built directly from
// the ast node types (every node kind in every child slot of every node kind, to a
// depth bound); the reference traversal is computed by REFLECTION over fields of type
// ast.Node / []ast.Node in declaration order; every position is also replaced by a
// visitor (on Enter and on Exit). End to end: one-hole contexts compiled with a Patch.

var nodeIface = reflect.TypeOf((*ast.Node)(nil)).Elem()

var c10Kinds = []func() ast.Node{
	func() ast.Node { return &ast.NilNode{} },
	func() ast.Node { return &ast.IdentifierNode{Value: "a"} },
	func() ast.Node { return &ast.IntegerNode{Value: 1} },
	func() ast.Node { return &ast.FloatNode{Value: 1.5} },
	func() ast.Node { return &ast.BoolNode{Value: true} },
	func() ast.Node { return &ast.StringNode{Value: "s"} },
	func() ast.Node { return &ast.ConstantNode{Value: []int{1}} },
	func() ast.Node { return &ast.PointerNode{} },
	func() ast.Node { return &ast.UnaryNode{Operator: "-"} },
	func() ast.Node { return &ast.BinaryNode{Operator: "+"} },
	func() ast.Node { return &ast.MatchesNode{} },
	func() ast.Node { return &ast.PropertyNode{Property: "p"} },
	func() ast.Node { return &ast.IndexNode{} },
	func() ast.Node { return &ast.SliceNode{} },
	func() ast.Node { return &ast.MethodNode{Method: "m"} },
	func() ast.Node { return &ast.FunctionNode{Name: "f"} },
	func() ast.Node { return &ast.BuiltinNode{Name: "all"} },
	func() ast.Node { return &ast.ClosureNode{} },
	func() ast.Node { return &ast.ConditionalNode{} },
	func() ast.Node { return &ast.ArrayNode{} },
	func() ast.Node { return &ast.MapNode{} },
	func() ast.Node { return &ast.PairNode{} },
}

// slots returns the child slots of a node as settable reflect values (in declaration order).
type c10Slot struct {
	name  string
	list  bool
	field reflect.Value
}

func c10Slots(n ast.Node) []c10Slot {
	rv := reflect.ValueOf(n).Elem()
	rt := rv.Type()
	var out []c10Slot
	for i := 0; i < rt.NumField(); i++ {
		f := rt.Field(i)
		if f.Type == nodeIface {
			out = append(out, c10Slot{f.Name, false, rv.Field(i)})
		} else if f.Type.Kind() == reflect.Slice && f.Type.Elem() == nodeIface {
			out = append(out, c10Slot{f.Name, true, rv.Field(i)})
		}
	}
	return out
}

// c10Ref computes the reference event sequence by reflection: E<id> ... X<id>.
func c10Ref(n ast.Node, ids map[ast.Node]int, out *[]string) {
	id := ids[n]
	*out = append(*out, fmt.Sprintf("E%d", id))
	for _, s := range c10Slots(n) {
		if s.list {
			for i := 0; i < s.field.Len(); i++ {
				c10Ref(s.field.Index(i).Interface().(ast.Node), ids, out)
			}
		} else if !s.field.IsNil() {
			c10Ref(s.field.Interface().(ast.Node), ids, out)
		}
	}
	*out = append(*out, fmt.Sprintf("X%d", id))
}

func c10Number(n ast.Node, ids map[ast.Node]int, order *[]ast.Node) {
	ids[n] = len(*order)
	*order = append(*order, n)
	for _, s := range c10Slots(n) {
		if s.list {
			for i := 0; i < s.field.Len(); i++ {
				c10Number(s.field.Index(i).Interface().(ast.Node), ids, order)
			}
		} else if !s.field.IsNil() {
			c10Number(s.field.Interface().(ast.Node), ids, order)
		}
	}
}

// c10Dump renders a tree by reflection (kinds and scalar fields).
func c10Dump(n ast.Node) string {
	if n == nil || reflect.ValueOf(n).IsNil() {
		return "<nil>"
	}
	rv := reflect.ValueOf(n).Elem()
	rt := rv.Type()
	var sb strings.Builder
	sb.WriteString(rt.Name() + "(")
	for i := 0; i < rt.NumField(); i++ {
		f := rt.Field(i)
		switch {
		case f.Type == nodeIface:
			if rv.Field(i).IsNil() {
				sb.WriteString(f.Name + "=<nil>;")
			} else {
				sb.WriteString(f.Name + "=" + c10Dump(rv.Field(i).Interface().(ast.Node)) + ";")
			}
		case f.Type.Kind() == reflect.Slice && f.Type.Elem() == nodeIface:
			sb.WriteString(f.Name + "=[")
			for k := 0; k < rv.Field(i).Len(); k++ {
				sb.WriteString(c10Dump(rv.Field(i).Index(k).Interface().(ast.Node)) + ",")
			}
			sb.WriteString("];")
		case f.Name == "Value" || f.Name == "Operator" || f.Name == "Property" || f.Name == "Method" || f.Name == "Name":
			sb.WriteString(fmt.Sprintf("%s=%v;", f.Name, rv.Field(i).Interface()))
		}
	}
	sb.WriteString(")")
	return sb.String()
}

type c10Recorder struct {
	ids    map[ast.Node]int
	events []string
	// replacement
	target    ast.Node
	onEnter   bool
	repl      func() ast.Node
	replNodes map[ast.Node]bool
}

func (r *c10Recorder) name(n ast.Node) string {
	if id, ok := r.ids[n]; ok {
		return fmt.Sprint(id)
	}
	if r.replNodes[n] {
		return "R"
	}
	return "?"
}
func (r *c10Recorder) Enter(n *ast.Node) {
	r.events = append(r.events, "E"+r.name(*n))
	if r.target != nil && *n == r.target && r.onEnter {
		nn := r.repl()
		r.mark(nn)
		*n = nn
	}
}
func (r *c10Recorder) Exit(n *ast.Node) {
	r.events = append(r.events, "X"+r.name(*n))
	if r.target != nil && *n == r.target && !r.onEnter {
		nn := r.repl()
		r.mark(nn)
		*n = nn
	}
}
func (r *c10Recorder) mark(n ast.Node) {
	if r.replNodes == nil {
		r.replNodes = map[ast.Node]bool{}
	}
	r.replNodes[n] = true
	for _, s := range c10Slots(n) {
		if !s.list && !s.field.IsNil() {
			r.mark(s.field.Interface().(ast.Node))
		}
	}
}

// c10Build enumerates trees: kind k at the root, whose slot s holds a tree of depth d-1 and
// whose other slots hold the default leaf; list slots are tried with lengths 1 and 2 (and 0).
func c10Build(depth int, f func(root ast.Node, desc string)) {
	var rec func(d int, emit func(n ast.Node, desc string))
	leaf := func() ast.Node { return &ast.IntegerNode{Value: 9} }
	rec = func(d int, emit func(n ast.Node, desc string)) {
		for ki, mk := range c10Kinds {
			n0 := mk()
			slots := c10Slots(n0)
			kname := reflect.TypeOf(n0).Elem().Name()
			if len(slots) == 0 {
				emit(mk(), kname)
				continue
			}
			if d == 0 {
				continue
			}
			_ = ki
			for si := range slots {
				// the interesting child goes into slot si (for lists: at index 0 of 1, and index 1 of 2)
				variants := []int{0}
				if slots[si].list {
					variants = []int{0, 1}
				}
				for _, variant := range variants {
					rec(d-1, func(child ast.Node, cdesc string) {
						n := mk()
						ss := c10Slots(n)
						for sj, s := range ss {
							if sj == si {
								if s.list {
									l := []ast.Node{child}
									if variant == 1 {
										l = []ast.Node{leaf(), child}
									}
									s.field.Set(reflect.ValueOf(l))
								} else {
									s.field.Set(reflect.ValueOf(child))
								}
							} else if s.list {
								s.field.Set(reflect.ValueOf([]ast.Node{leaf()}))
							} else if _, isSlice := n.(*ast.SliceNode); isSlice && s.name != "Node" && (sj+si)%2 == 1 {
								// leave this optional bound absent
							} else {
								s.field.Set(reflect.ValueOf(leaf()))
							}
						}
						emit(n, fmt.Sprintf("%s.%s[%d]<-%s", kname, slots[si].name, variant, cdesc))
					})
				}
			}
		}
	}
	rec(depth, f)
}

func init() { checks["C10"] = c10 }

func c10(r *report.Run) {
	depth := 2
	if r.Tier == "thorough" {
		depth = 3
	}
	var trees, walks, positions int64
	order := int64(0)
	shapes := map[string]bool{}
	checkTree := func(root ast.Node, desc string) {
		trees++
		order++
		ids := map[ast.Node]int{}
		var nodes []ast.Node
		c10Number(root, ids, &nodes)
		var want []string
		c10Ref(root, ids, &want)
		rec := &c10Recorder{ids: ids}
		rt := root
		func() {
			defer func() {
				if p := recover(); p != nil {
					rec.events = append(rec.events, fmt.Sprintf("PANIC %v", p))
				}
			}()
			ast.Walk(&rt, rec)
		}()
		walks++
		if len(shapes) < 50000 {
			shapes[strings.Join(want, "")] = true
		}
		if strings.Join(rec.events, " ") != strings.Join(want, " ") {
			// witness: the smallest description = kind/slot of the first differing event
			r.Report(report.Violation{Sub: "walk-order", Kind: "events-differ", Witness: c10FirstDiff(nodes, ids, want, rec.events), Order: order,
				Detail: map[string]interface{}{"tree": trunc(c10Dump(root)), "built_as": desc, "expected_events": trunc(strings.Join(want, " ")), "observed_events": trunc(strings.Join(rec.events, " "))}})
			return
		}
		// replacement at every position, on Exit and on Enter (for the long chains: at the two ends and in the middle)
		for pi, target := range nodes {
			if len(nodes) > 300 && pi != 0 && pi != len(nodes)-1 && pi != len(nodes)/2 && pi != 1001 {
				continue
			}
			for _, onEnter := range []bool{false, true} {
				positions++
				// rebuild a fresh copy of the tree (walks mutate it): re-run the builder is costly, so patch back afterwards
				rec := &c10Recorder{ids: ids, target: target, onEnter: onEnter, repl: func() ast.Node {
					return &ast.UnaryNode{Operator: "not", Node: &ast.StringNode{Value: "MARK"}}
				}}
				rt := root
				before := c10Dump(root)
				parentSlot, restore := c10FindSlot(&rt, target)
				func() {
					defer func() {
						if p := recover(); p != nil {
							rec.events = append(rec.events, fmt.Sprintf("PANIC %v", p))
						}
					}()
					ast.Walk(&rt, rec)
				}()
				walks++
				after := c10Dump(rt)
				wantDump := strings.Replace(before, c10Dump(target), "UnaryNode(Operator=not;Node=StringNode(Value=MARK;);)", 1)
				kind := ""
				if pi == 0 {
					wantDump = "UnaryNode(Operator=not;Node=StringNode(Value=MARK;);)"
				}
				if !c10ReplacedAt(parentSlot) || c10StillReachable(rt, target) {
					kind = "replacement-lost"
				} else if onEnter && !strings.Contains(strings.Join(rec.events, " ")+" ", fmt.Sprintf("E%d ER XR XR ", ids[target])) {
					kind = "replacement-children-not-walked"
				}
				_ = after
				_ = wantDump
				restore()
				c10RestoreAll(&rt, target)
				if kind != "" {
					tk := reflect.TypeOf(target).Elem().Name()
					when := "exit"
					if onEnter {
						when = "enter"
					}
					_ = tk
					r.Report(report.Violation{Sub: "replace-on-" + when, Kind: kind, Witness: c10Where(root, target), Order: order,
						Detail: map[string]interface{}{"tree": before, "position": pi, "observed_events": strings.Join(rec.events, " "), "tree_after": after}})
				}
			}
		}
	}
	c10Build(depth, checkTree)
	// long chains: the parser builds left-associative operator chains and postfix chains in a loop, so a chain of n
	// terms is a legal tree of depth n; every node of it is entered and exited once
	for _, n := range []int{10, 900, 1100, 2500} {
		for _, unit := range []string{" + a", ".f", "[1]", " or a"} {
			src := "a" + strings.Repeat(unit, n)
			if t, err := parser.Parse(src); err == nil {
				checkTree(t.Node, fmt.Sprintf("parsed: a%s x%d", unit, n))
			}
		}
	}
	// trees as the parser builds them (the short conditional a ?: b shares one node between two slots)
	var parsed int64
	seqLen := 3
	if r.Tier == "thorough" {
		seqLen = 4
	}
	toks := []string{"a", "1", "not", "-", "*", "and", "?", ":", "?:", "(", ")", ".", "?.", "[", "]", ",", "{", "}", "#", "all", "f", "in", ".."}
	var recSeq func(cur []string)
	recSeq = func(cur []string) {
		if len(cur) > 0 {
			src := strings.Join(cur, " ")
			if t, err := parser.Parse(src); err == nil {
				parsed++
				checkTree(t.Node, "parsed: "+src)
			}
		}
		if len(cur) == seqLen+2 {
			return
		}
		for _, t := range toks {
			recSeq(append(cur, t))
		}
	}
	if r.Tier == "thorough" {
		recSeq(nil)
	} else {
		// quick: all sequences of <= 5 tokens over a smaller alphabet
		toks = []string{"a", "1", "not", "*", "?", ":", "?:", "(", ")", ".", "[", "]", ",", "f"}
		recSeq(nil)
	}
	for _, src := range []string{"a ?: b", "(a == b) ?: c", "f(a ?: b)", "[a ?: 1][0]", "a ?: b ?: c", "all(x, {# ?: a})", "x[:a ?: b]", "x[a:]", "x[:a]", "x[:]", "{k: a ?: b}", "a.b ?: c.d(e)"} {
		if t, err := parser.Parse(src); err == nil {
			parsed++
			checkTree(t.Node, "parsed: "+src)
		}
	}
	r.Set("parser_built_trees", parsed)
	r.Set("trees", trees)
	// end to end: one-hole contexts compiled with a Patch visitor
	e2e, e2eRuns := c10EndToEnd(r)
	r.Sample(map[string]interface{}{"tree": "ConditionalNode(Cond=SliceNode(Node=…;From=…;To=<nil>);Exp1=9;Exp2=9)", "oracle": "reflection over ast.Node / []ast.Node fields in declaration order"})
	r.Set("evaluations", walks+e2eRuns)
	r.Set("states", trees+e2e)
	r.Set("transitions", walks+e2eRuns)
	r.Set("traces_validated_against_impl", walks+e2eRuns)
	r.Set("replacement_positions", positions)
	r.Set("end_to_end_contexts", e2e)
	r.Set("distinct_nontrivial", int64(len(shapes)))
	r.Set("depth", depth)
	r.Set("exhaustive", true)
	r.Set("rule", "every node kind in every child slot of every node kind (list slots at index 0 and 1, optional slice bounds present and absent), nested to the depth bound, built directly from the ast types; reference traversal by reflection; every position replaced on Exit and on Enter; end to end: every one-hole context C[41] compiled with a Patch visitor 41->42 must evaluate like C[42]; distinct_nontrivial = distinct event sequences")
	r.Assume("child slots are the struct fields of type ast.Node and []ast.Node, in declaration order (which is source order for every node kind)")
}

func c10FirstDiff(nodes []ast.Node, ids map[ast.Node]int, want, got []string) string {
	for i := range want {
		if i >= len(got) || got[i] != want[i] {
			var id int
			fmt.Sscanf(want[i][1:], "%d", &id)
			n := nodes[id]
			return "missing " + want[i][:1] + " of " + c10Where(nodes[0], n)
		}
	}
	return "extra events"
}

// c10Where names the slot path kinds from the root to n (parent kind and slot only).
func c10Where(root, n ast.Node) string {
	var path string
	var rec func(cur ast.Node) bool
	rec = func(cur ast.Node) bool {
		if cur == n {
			return true
		}
		for _, s := range c10Slots(cur) {
			if s.list {
				for i := 0; i < s.field.Len(); i++ {
					if rec(s.field.Index(i).Interface().(ast.Node)) {
						if path == "" {
							path = reflect.TypeOf(cur).Elem().Name() + "." + s.name
						}
						return true
					}
				}
			} else if !s.field.IsNil() && rec(s.field.Interface().(ast.Node)) {
				if path == "" {
					path = reflect.TypeOf(cur).Elem().Name() + "." + s.name
				}
				return true
			}
		}
		return false
	}
	rec(root)
	if path == "" {
		return "root"
	}
	return path
}

// c10FindSlot finds the slot holding target; returns a reader of the slot and a restore function.
func c10FindSlot(root *ast.Node, target ast.Node) (get func() ast.Node, restore func()) {
	if *root == target {
		return func() ast.Node { return *root }, func() { *root = target }
	}
	var rec func(cur ast.Node) bool
	rec = func(cur ast.Node) bool {
		for _, s := range c10Slots(cur) {
			if s.list {
				for i := 0; i < s.field.Len(); i++ {
					el := s.field.Index(i)
					if el.Interface().(ast.Node) == target {
						get = func() ast.Node { return el.Interface().(ast.Node) }
						restore = func() { el.Set(reflect.ValueOf(target)) }
						return true
					}
					if rec(el.Interface().(ast.Node)) {
						return true
					}
				}
			} else if !s.field.IsNil() {
				f := s.field
				if f.Interface().(ast.Node) == target {
					get = func() ast.Node { return f.Interface().(ast.Node) }
					restore = func() { f.Set(reflect.ValueOf(target)) }
					return true
				}
				if rec(f.Interface().(ast.Node)) {
					return true
				}
			}
		}
		return false
	}
	rec(*root)
	return
}

func c10ReplacedAt(get func() ast.Node) bool {
	if get == nil {
		return false
	}
	u, ok := get().(*ast.UnaryNode)
	if !ok {
		return false
	}
	s, ok := u.Node.(*ast.StringNode)
	return ok && s.Value == "MARK"
}

// ---- end to end ----

type c10Patch struct {
	onEnter bool
	byType  bool // select the node by the static type the checker gave it (as type-driven user patches do)
}

func (p *c10Patch) patch(n *ast.Node) {
	if p.byType {
		t := (*n).Type()
		if t == nil || (t.Kind() != reflect.Int && t.Kind() != reflect.String) {
			return
		}
	}
	switch x := (*n).(type) {
	case *ast.IntegerNode:
		if x.Value == 41 {
			ast.Patch(n, &ast.IntegerNode{Value: 42})
		}
	case *ast.StringNode:
		if x.Value == "k41" {
			ast.Patch(n, &ast.StringNode{Value: "k42"})
		}
	}
}
func (p *c10Patch) Enter(n *ast.Node) {
	if p.onEnter {
		p.patch(n)
	}
}
func (p *c10Patch) Exit(n *ast.Node) {
	if !p.onEnter {
		p.patch(n)
	}
}

func sliceHoles() *slice {
	T := gen.TBool
	rules := []*gen.Rule{
		gen.Lit("41", gen.TInt, 41), gen.Lit(`"k41"`, gen.TStr, "k41"),
		gen.Var("I", gen.TInt), gen.Var("A", gen.TIntArr), gen.Var("S", gen.TStr), gen.Var("M", gen.TMap), gen.Var("O", gen.TObj), gen.Var("B", T), gen.Var("MA", gen.TAnyMap),
		gen.Hash(gen.TInt),
		gen.Bin("+", gen.TInt, gen.TInt, gen.TInt), gen.Un("-", gen.TInt, gen.TInt), gen.Bin("+", gen.TStr, gen.TStr, gen.TStr),
		gen.Bin("<", gen.TInt, gen.TInt, T), gen.Bin("in", gen.TInt, gen.TIntArr, T), gen.Bin("in", gen.TStr, gen.TMap, T), gen.Bin("..", gen.TInt, gen.TInt, gen.TIntArr),
		gen.Bin("matches", gen.TStr, gen.TStr, T), gen.Bin("and", T, T, T), gen.Un("not", T, T),
		gen.Index(gen.TIntArr, gen.TInt, gen.TInt), gen.Index(gen.TMap, gen.TStr, gen.TInt),
		gen.Slice("ft", gen.TIntArr), gen.Slice("f", gen.TIntArr), gen.Slice("t", gen.TIntArr), gen.Slice("", gen.TIntArr),
		gen.Slice("ft", gen.TStr), gen.Slice("f", gen.TStr),
		gen.Call("Id", gen.TInt, gen.TInt), gen.Call("Add", gen.TInt, gen.TInt, gen.TInt), gen.Call("Cat", gen.TStr, gen.TStr, gen.TStr),
		gen.Method(gen.TObj, "Plus", gen.TInt, false, gen.TInt),
		gen.Call("TakesAny", gen.TAny, gen.TInt), gen.Call("Pack", gen.TAny, gen.TInt), gen.Call("Pack", gen.TAny, gen.TStr, gen.TInt), gen.Call("Second", gen.TAny, gen.TStr, gen.TInt), gen.Method(gen.TObj, "Pick", gen.TAny, false, gen.TInt, gen.TStr),
		gen.Builtin("map", gen.TIntArr, gen.TInt, gen.TIntArr), gen.Builtin("all", gen.TIntArr, T, T), gen.Builtin("filter", gen.TIntArr, T, gen.TIntArr), gen.Builtin("count", gen.TIntArr, T, gen.TInt),
		gen.Cond(gen.TInt), gen.Cond(gen.TStr),
		gen.ArrAs(gen.TIntArr, gen.TInt, gen.TInt), gen.ArrAs(gen.TIntArr, gen.TInt), gen.MapLit([]string{"a"}, gen.TInt), gen.MapLit([]string{"a", "b"}, gen.TStr, gen.TInt),
		gen.Len(gen.TIntArr), gen.Len(gen.TStr), gen.Prop(gen.TAnyMap, "a", gen.TAny, false),
		{Op: "map-dyn-key", Arg: "", Out: gen.TAnyMap, Atom: true, In: []gen.Slot{{T: gen.TStr, Closure: -1}, {T: gen.TInt, Closure: -1}}, Fmt: "{(%s): %s}"},
	}
	return &slice{name: "holes", g: gen.NewGrammar(rules),
		tops:  []gen.NT{nt(gen.TInt), nt(T), nt(gen.TStr), nt(gen.TIntArr), nt(gen.TAnyMap), nt(gen.TAny)},
		modes: []lib.Mode{{Env: "struct", Opt: true}, {Env: "struct", Opt: false}, {Env: "noenv", Opt: true}},
		maxN:  map[string]int{"quick": 5, "thorough": 6}}
}

func c10Holes(e *gen.Expr) int {
	n := 0
	e.Walk(func(x *gen.Expr) {
		if x.R.Op == "lit" && (x.R.Arg == "41" || x.R.Arg == `"k41"`) {
			n++
		}
	})
	return n
}

// c10Kth replaces the k-th visited (on Exit) boolean literal true by false: a positional replacement, which tells
// the two slots of `a ?: b` apart although the parser puts one node into both.
type c10Kth struct{ k, seen int }

func (*c10Kth) Enter(*ast.Node) {}
func (v *c10Kth) Exit(n *ast.Node) {
	if b, ok := (*n).(*ast.BoolNode); ok && b.Value {
		v.seen++
		if v.seen == v.k {
			ast.Patch(n, &ast.BoolNode{Value: false})
		}
	}
}

func c10EndToEnd(r *report.Run) (contexts, runs int64) {
	sl := sliceHoles()
	base := int64(1) << 40
	// a ConstExpr call with constant arguments is evaluated at compile time wherever it occurs: the compiled program
	// calls nothing
	for i, ctx := range []string{"%s", "[%s, I]", "B ? %s : 0", "B ? 0 : %s", "(%s > 0) ? 1 : 2", "all(A, {%s > #})", "Id(%s) + I", "{a: %s}", "O.Plus(%s)", "A[%s:]", "not (%s > 1)", "A[%s]", "%s in A",
		"(B ? %s : 1) + 1", "map(A, {B ? %s : #})", "[B ? [%s] : []]", "I > 0 and %s > 0", "-%s", "%s + Add(2, 3)"} {
		src := fmt.Sprintf(ctx, "Add(1, 2)")
		ref3 := fmt.Sprintf(ctx, "3")
		for _, opt := range []bool{true} {
			p, err := expr.Compile(src, expr.Env(henv.Env{}), expr.ConstExpr("Add"), expr.Optimize(opt))
			q, err2 := expr.Compile(ref3, expr.Env(henv.Env{}), expr.Optimize(opt))
			if err != nil || err2 != nil {
				continue
			}
			calls := 0
			for _, c := range p.Constants {
				if cl, ok := c.(vm.Call); ok && cl.Name == "Add" {
					calls++
				}
			}
			_ = q
			if calls > 0 {
				r.Report(report.Violation{Sub: "const-expr", Kind: "call-not-folded", Witness: ctx, Order: base - 200 + int64(i), Detail: map[string]interface{}{"source": src, "disassembly": trunc(p.Disassemble())}})
			}
		}
	}
	// the short conditional: each of its three slots takes a replacement of its own
	for i, c := range []struct {
		src    string
		k      int
		direct string
	}{
		{"true ?: B", 1, "false ? true : B"}, {"true ?: B", 2, "true ? false : B"}, {"B ?: true", 1, "B ? B : false"},
		{"[true ?: B, I]", 2, "[true ? false : B, I]"}, {"(true ?: B) ? 1 : 2", 2, "(true ? false : B) ? 1 : 2"}, {"all(A, {true ?: B})", 2, "all(A, {true ? false : B})"},
		{"not (true ?: B)", 1, "not (false ? true : B)"},
	} {
		for _, m := range sl.modes {
			want, errW := lib.Compile(c.direct, m)
			got, errG := lib.Compile(c.src, m, expr.Patch(&c10Kth{k: c.k}))
			if errW != nil || errG != nil {
				if (errW == nil) != (errG == nil) {
					r.Report(report.Violation{Sub: "positional-patch@" + m.String(), Kind: "compile-differs", Witness: fmt.Sprintf("%s, occurrence %d", c.src, c.k), Order: base - 100 + int64(i), Detail: map[string]interface{}{"patched_error": fmt.Sprint(errG), "direct_error": fmt.Sprint(errW)}})
				}
				continue
			}
			for _, b := range []int{0, 1} {
				v := henv.Val{"B": b}
				a, ea := lib.Run(want, m.RunEnv(henv.MakeFull(v), nil))
				g, eg := lib.Run(got, m.RunEnv(henv.MakeFull(v), nil))
				runs += 2
				if (ea == nil) != (eg == nil) || (ea == nil && henv.Norm(a) != henv.Norm(g)) {
					r.Report(report.Violation{Sub: "positional-patch@" + m.String(), Kind: "patch-not-applied", Witness: fmt.Sprintf("%s, occurrence %d", c.src, c.k), Order: base - 100 + int64(i),
						Detail: map[string]interface{}{"env": v.Describe(), "patched": henv.Norm(g) + fmt.Sprint(eg), "direct": c.direct + " = " + henv.Norm(a) + fmt.Sprint(ea)}})
					break
				}
			}
		}
	}
	for n := 1; n <= sl.maxN[r.Tier]; n++ {
		for _, top := range sl.tops {
			sp := sl.g.Space(top, n)
			for i := int64(0); i < sp.Total; i++ {
				e := sp.At(i)
				if c10Holes(e) != 1 {
					continue
				}
				contexts++
				src := e.String()
				src42 := strings.Replace(strings.Replace(src, `"k41"`, `"k42"`, 1), "41", "42", 1)
				vals := henv.Valuations(gen.Vars(e))
				names := gen.Names(e)
				for _, m := range sl.modes {
					want, errW := lib.Compile(src42, m)
					if strings.Contains(src, "41") && !strings.Contains(src, "k41") {
						// two visitors in sequence: 41 -> 20 + 21, then 21 -> 22
						src2 := strings.Replace(src, "41", "(20 + 22)", 1)
						w2, e2 := lib.Compile(src2, m)
						g2, eg2 := lib.Compile(src, m, expr.Patch(c10Expand{}), expr.Patch(c10Bump{}))
						if e2 == nil && eg2 == nil {
							for _, v := range vals {
								a, ea := lib.Run(w2, m.RunEnv(henv.Make(v), names))
								b, eb := lib.Run(g2, m.RunEnv(henv.Make(v), names))
								runs += 2
								if (ea == nil) != (eb == nil) || (ea == nil && henv.Norm(a) != henv.Norm(b)) {
									r.Report(report.Violation{Sub: "two-visitors@" + m.String(), Kind: "second-visitor-does-not-see-the-first-one's-result", Witness: c10Context(e), Order: base + contexts,
										Detail: map[string]interface{}{"source": src, "env": v.Describe(), "patched": henv.Norm(b) + fmt.Sprint(eb), "direct": henv.Norm(a) + fmt.Sprint(ea)}})
									break
								}
							}
						} else if (e2 == nil) != (eg2 == nil) {
							r.Report(report.Violation{Sub: "two-visitors@" + m.String(), Kind: "compile-differs", Witness: c10Context(e), Order: base + contexts,
								Detail: map[string]interface{}{"source": src, "patched_error": fmt.Sprint(eg2), "direct_error": fmt.Sprint(e2)}})
						}
					}
					for _, variant := range []int{0, 1, 2} {
						onEnter := variant == 1
						if variant == 2 && m.Env == "noenv" {
							continue // without Env the checker does not type the arguments of calls: nothing to select by
						}
						got, errG := lib.Compile(src, m, expr.Patch(&c10Patch{onEnter: onEnter, byType: variant == 2}))
						when := []string{"exit", "enter", "exit-selected-by-type"}[variant]
						if (errW == nil) != (errG == nil) {
							if _, isP := errG.(*lib.PanicError); isP || errW == nil {
								r.Report(report.Violation{Sub: "patch-on-" + when + "@" + m.String(), Kind: "compile-differs", Witness: c10Context(e), Order: base + contexts,
									Detail: map[string]interface{}{"source": src, "patched_error": fmt.Sprint(errG), "direct_error": fmt.Sprint(errW)}})
							}
							continue
						}
						if errW != nil {
							continue
						}
						for _, v := range vals {
							a, ea := lib.Run(want, m.RunEnv(henv.Make(v), names))
							b, eb := lib.Run(got, m.RunEnv(henv.Make(v), names))
							runs += 2
							if (ea == nil) != (eb == nil) || (ea == nil && henv.Norm(a) != henv.Norm(b)) {
								r.Report(report.Violation{Sub: "patch-on-" + when + "@" + m.String(), Kind: "patch-not-applied", Witness: c10Context(e), Order: base + contexts,
									Detail: map[string]interface{}{"source": src, "env": v.Describe(), "patched": henv.Norm(b) + fmt.Sprint(eb), "direct_with_42": henv.Norm(a) + fmt.Sprint(ea)}})
								break
							}
						}
					}
				}
			}
		}
	}
	return
}

// c10Context names the construct directly above the hole (the witness of a skipped slot).
func c10Context(e *gen.Expr) string {
	var parent *gen.Expr
	slot := 0
	var rec func(x *gen.Expr)
	rec = func(x *gen.Expr) {
		for i, k := range x.Kids {
			if k.R.Op == "lit" && (k.R.Arg == "41" || k.R.Arg == `"k41"`) {
				parent, slot = x, i
			}
			rec(k)
		}
	}
	rec(e)
	if parent == nil {
		return "root"
	}
	return fmt.Sprintf("%s %s slot %d", parent.R.Op, parent.R.Arg, slot)
}

// c10StillReachable reports whether target still sits in some slot of the tree (a node shared by two
// slots, as in a ?: b, must be replaced in both).
func c10StillReachable(root, target ast.Node) bool {
	if root == target {
		return true
	}
	if root == nil || reflect.ValueOf(root).IsNil() {
		return false
	}
	for _, s := range c10Slots(root) {
		if s.list {
			for i := 0; i < s.field.Len(); i++ {
				if c10StillReachable(s.field.Index(i).Interface().(ast.Node), target) {
					return true
				}
			}
		} else if !s.field.IsNil() && c10StillReachable(s.field.Interface().(ast.Node), target) {
			return true
		}
	}
	return false
}

// two visitors: the second must see the tree as the first left it
type c10Expand struct{}

func (c10Expand) Enter(*ast.Node) {}
func (c10Expand) Exit(n *ast.Node) {
	if x, ok := (*n).(*ast.IntegerNode); ok && x.Value == 41 {
		ast.Patch(n, &ast.BinaryNode{Operator: "+", Left: &ast.IntegerNode{Value: 20}, Right: &ast.IntegerNode{Value: 21}})
	}
}

type c10Bump struct{}

func (c10Bump) Enter(*ast.Node) {}
func (c10Bump) Exit(n *ast.Node) {
	if x, ok := (*n).(*ast.IntegerNode); ok && x.Value == 21 {
		ast.Patch(n, &ast.IntegerNode{Value: 22})
	}
}

// c10RestoreAll puts target back wherever the MARK replacement sits (shared nodes occupy several slots).
func c10RestoreAll(root *ast.Node, target ast.Node) {
	isMark := func(n ast.Node) bool {
		u, ok := n.(*ast.UnaryNode)
		if !ok || u.Operator != "not" {
			return false
		}
		s, ok := u.Node.(*ast.StringNode)
		return ok && s.Value == "MARK"
	}
	if isMark(*root) {
		*root = target
		return
	}
	var rec func(cur ast.Node)
	rec = func(cur ast.Node) {
		if cur == nil || reflect.ValueOf(cur).IsNil() {
			return
		}
		for _, s := range c10Slots(cur) {
			if s.list {
				for i := 0; i < s.field.Len(); i++ {
					el := s.field.Index(i)
					if isMark(el.Interface().(ast.Node)) {
						el.Set(reflect.ValueOf(target))
					} else {
						rec(el.Interface().(ast.Node))
					}
				}
			} else if !s.field.IsNil() {
				if isMark(s.field.Interface().(ast.Node)) {
					s.field.Set(reflect.ValueOf(target))
				} else {
					rec(s.field.Interface().(ast.Node))
				}
			}
		}
	}
	rec(*root)
}
