package main

import (
	"fmt"
	"math"
	"strconv"
	"strings"
	"sync/atomic"

	"github.com/antonmedv/expr"
	"github.com/antonmedv/expr/ast"
	"github.com/antonmedv/expr/file"
	"github.com/antonmedv/expr/parser"
	"github.com/antonmedv/expr/parser/lexer"

	"verif/mc/par"
	"verif/mc/report"
)

// C12: literals and token positions are lexed faithfully (round trips, exhaustive over
// small alphabets and boundary grids).

func lexSafe(src string) (toks []lexer.Token, err error) {
	defer func() {
		if r := recover(); r != nil {
			toks, err = nil, fmt.Errorf("PANIC: %v", r)
		}
	}()
	return lexer.Lex(file.NewSource(src))
}

func parseSafe(src string) (n ast.Node, err error) {
	defer func() {
		if r := recover(); r != nil {
			n, err = nil, fmt.Errorf("PANIC: %v", r)
		}
	}()
	t, e := parser.Parse(src)
	if e != nil {
		return nil, e
	}
	return t.Node, nil
}

var c12Runes = []rune{'a', 0, '\a', '\t', '\v', '"', '\'', '\\', 'é', 0xFFFD, 0x1F600, 0x10FFFF, ' ', '`', '\r', '\n'}

// spellings of rune r inside a literal quoted with q
func c12Spellings(r rune, q rune) []string {
	var out []string
	if r != q && r != '\\' && r != '\n' && r != '\r' {
		out = append(out, string(r))
	}
	named := map[rune]string{'\a': `\a`, '\b': `\b`, '\f': `\f`, '\n': `\n`, '\r': `\r`, '\t': `\t`, '\v': `\v`, '\\': `\\`}
	if s, ok := named[r]; ok {
		out = append(out, s)
	}
	if r == q {
		out = append(out, `\`+string(q))
	}
	if r < 256 {
		out = append(out, fmt.Sprintf(`\x%02x`, r), fmt.Sprintf(`\x%02X`, r), fmt.Sprintf(`\%03o`, r))
	}
	if r <= 0xFFFF {
		out = append(out, fmt.Sprintf(`\u%04x`, r), fmt.Sprintf(`\u%04X`, r))
	}
	out = append(out, fmt.Sprintf(`\U%08x`, r), fmt.Sprintf(`\U%08X`, r))
	return out
}

func init() { checks["C12"] = c12 }

func c12(r *report.Run) {
	var evals int64
	order := int64(0)
	distinct := map[string]bool{}
	// ---- strings ----
	maxLen := 3
	if r.Tier == "thorough" {
		maxLen = 4 // 4-rune strings with at most two runes in a non-default spelling
	}
	var strs [][]rune
	var rec func(cur []rune)
	rec = func(cur []rune) {
		strs = append(strs, append([]rune{}, cur...))
		if len(cur) == maxLen {
			return
		}
		for _, x := range c12Runes {
			rec(append(cur, x))
		}
	}
	rec(nil)
	// strings of one or two punctuation characters (they spell tokens the parser probes for): raw spelling, parser contexts
	for _, a := range "()[]{}:#.,?!" {
		strs = append(strs, []rune{a})
		for _, b := range "()[]{}:#.,?" {
			strs = append(strs, []rune{a, b})
		}
	}
	var strCases int64
	for _, q := range []rune{'"', '\''} {
		q := q
		par.For(len(strs), func(i int) {
			rs := strs[i]
			want := string(rs)
			// all combinations of spellings
			sp := make([][]string, len(rs))
			total := 1
			for k, x := range rs {
				sp[k] = c12Spellings(x, q)
				total *= len(sp[k])
			}
			for c := 0; c < total; c++ {
				if len(rs) == 4 {
					nz := 0
					for x, k := c, 0; k < len(rs); k++ {
						if x%len(sp[k]) != 0 {
							nz++
						}
						x /= len(sp[k])
					}
					if nz > 2 {
						continue
					}
				}
				var sb strings.Builder
				sb.WriteRune(q)
				x := c
				for k := range rs {
					sb.WriteString(sp[k][x%len(sp[k])])
					x /= len(sp[k])
				}
				sb.WriteRune(q)
				src := sb.String()
				toks, err := lexSafe(src)
				atomic.AddInt64(&evals, 1)
				atomic.AddInt64(&strCases, 1)
				kind := ""
				got := ""
				switch {
				case err != nil:
					kind = "rejected"
					got = err.Error()
				case len(toks) != 2 || toks[0].Kind != lexer.String:
					kind = "not-one-string-token"
					got = fmt.Sprint(toks)
				case toks[0].Value != want:
					kind = "value"
					got = strconv.QuoteToASCII(toks[0].Value)
				}
				if kind == "" && len(rs) <= 2 {
					// the same literal through the parser: one string node with that value, alone and in the positions
					// where the parser looks for punctuation
					for _, ctx := range []string{"%s", "[%s]", "{a: %s}", "f(%s)", "a[%s]", "b ? %s : %s"} {
						psrc := strings.Replace(ctx, "%s", src, -1)
						root, perr := parseSafe(psrc)
						atomic.AddInt64(&evals, 1)
						n := 0
						bad := perr != nil
						if !bad {
							var walk func(x ast.Node)
							walk = func(x ast.Node) {
								switch y := x.(type) {
								case *ast.StringNode:
									n++
									if y.Value != want {
										bad = true
									}
								case *ast.ArrayNode:
									for _, k := range y.Nodes {
										walk(k)
									}
								case *ast.MapNode:
									for _, k := range y.Pairs {
										walk(k.(*ast.PairNode).Value)
									}
								case *ast.FunctionNode:
									for _, k := range y.Arguments {
										walk(k)
									}
								case *ast.IndexNode:
									walk(y.Index)
								case *ast.ConditionalNode:
									walk(y.Exp1)
									walk(y.Exp2)
								}
							}
							walk(root)
							bad = bad || n != strings.Count(ctx, "%s")
						}
						if bad {
							kind, got = "parsed-differently", fmt.Sprintf("in %q: %v", ctx, perr)
							break
						}
					}
				}
				if kind != "" {
					// witness: the spelling of the first rune that differs, when it can be isolated
					r.Report(report.Violation{Sub: "string", Kind: kind, Witness: c12StringWitness(rs, sp, c, q), Order: int64(i)*1000 + int64(c),
						Detail: map[string]interface{}{"source": strconv.QuoteToASCII(src), "expected": strconv.QuoteToASCII(want), "observed": got}})
				}
			}
		})
	}
	order = int64(len(strs)) * 1000
	distinct["strings"] = true
	// ---- integers ----
	ints := map[int64]bool{}
	for v := int64(0); v <= 4096; v++ {
		ints[v] = true
	}
	for k := uint(0); k < 63; k++ {
		p := int64(1) << k
		ints[p], ints[p-1], ints[p+1] = true, true, true
	}
	ints[math.MaxInt64] = true
	for p := int64(1); p > 0 && p < math.MaxInt64/10; p *= 10 {
		ints[p], ints[p-1], ints[p+1] = true, true, true
	}
	for k := uint(0); k < 16; k++ {
		for d := int64(1); d < 16; d++ {
			if k == 15 && d > 7 {
				continue
			}
			ints[d<<(4*k)] = true
			if k > 0 {
				ints[d<<(4*k)|0xe<<(4*(k-1))] = true // an 'e' digit in every position
			}
		}
	}
	var intCases int64
	for v := range ints {
		if v < 0 {
			continue
		}
		dec := strconv.FormatInt(v, 10)
		hexl := "0x" + strconv.FormatInt(v, 16)
		hexu := "0x" + strings.ToUpper(strconv.FormatInt(v, 16))
		sps := []string{dec, hexl, hexu, "0" + dec, "00" + dec} // a decimal literal stays decimal behind leading zeros
		if len(dec) <= 6 {
			for pos := 1; pos < len(dec); pos++ {
				sps = append(sps, dec[:pos]+"_"+dec[pos:])
			}
		} else {
			sps = append(sps, dec[:1]+"_"+dec[1:], dec[:len(dec)-3]+"_"+dec[len(dec)-3:])
		}
		h := strconv.FormatInt(v, 16)
		if len(h) > 1 {
			sps = append(sps, "0x"+h[:1]+"_"+h[1:], "0x"+strings.ToUpper(h[:len(h)-1])+"_"+strings.ToUpper(h[len(h)-1:]))
		}
		for _, src := range sps {
			n, err := parseSafe(src)
			evals++
			intCases++
			order++
			kind, got := "", ""
			if err != nil {
				kind, got = "rejected", err.Error()
			} else if in, ok := n.(*ast.IntegerNode); !ok {
				kind, got = "not-an-integer", fmt.Sprintf("%T", n)
			} else if int64(in.Value) != v {
				kind, got = "value", fmt.Sprint(in.Value)
			}
			if kind != "" {
				fam := "decimal"
				if len(src) > 1 && src[0] == '0' && src[1] != 'x' {
					fam = "decimal with leading zero"
				}
				if strings.HasPrefix(src, "0x") {
					fam = "hex"
					if strings.ContainsAny(src, "eE") {
						fam = "hex with digit e"
					}
				}
				if strings.Contains(src, "_") {
					fam += " with separator"
				}
				r.Report(report.Violation{Sub: "integer", Kind: kind, Witness: fam, Order: order,
					Detail: map[string]interface{}{"source": src, "expected": v, "observed": got}})
			}
		}
	}
	distinct["ints"] = true
	// ---- floats ----
	fset := map[uint64]float64{}
	addF := func(f float64) {
		if !math.IsInf(f, 0) && !math.IsNaN(f) && f >= 0 {
			fset[math.Float64bits(f)] = f
		}
	}
	seeds := []float64{0, math.SmallestNonzeroFloat64, 2.2250738585072009e-308, 2.2250738585072014e-308, math.MaxFloat64, math.MaxFloat32, math.SmallestNonzeroFloat32,
		0.1, 0.5, 1.5, 2.5, 1.0 / 3, 9007199254740993, 123456789.12345678, 5e-324, 1e23, 8.41e21, 2.2250738585072011e-308, 6.02214076e23, 1.7976931348623157e308}
	for _, s := range seeds {
		addF(s)
		addF(math.Nextafter(s, math.Inf(1)))
		addF(math.Nextafter(s, 0))
	}
	// a deterministic grid of values whose shortest decimal form has 16-17 significant digits
	for i := 1; i <= 400; i++ {
		addF(float64(i) * 0.7071067811865476)
		addF(float64(i) * 1.1920928955078125e-3 / 3)
		addF(1 - float64(i)*1.1102230246251565e-16)
	}
	for _, f := range []float64{0.9999999999999999, 94.05090880450125, 1.7976931348623157, 123456.78901234567, 0.30000000000000004, 4.35, 2.675, 1.005} {
		addF(f)
	}
	for k := -1074; k <= 1023; k += 7 {
		f := math.Ldexp(1, k)
		addF(f)
		addF(math.Nextafter(f, 0))
	}
	for k := -320; k <= 308; k += 3 {
		f, _ := strconv.ParseFloat(fmt.Sprintf("1e%d", k), 64)
		addF(f)
		addF(math.Nextafter(f, math.Inf(1)))
		f2, _ := strconv.ParseFloat(fmt.Sprintf("1.2345678901234567e%d", k), 64)
		addF(f2)
	}
	var fltCases int64
	for _, f := range fset {
		var sps []string
		for _, fm := range []byte{'e', 'E', 'f', 'g'} {
			s := strconv.FormatFloat(f, fm, -1, 64)
			if !strings.ContainsAny(s, ".eE") {
				s += ".0"
			}
			sps = append(sps, s)
			if strings.HasPrefix(s, "0.") {
				sps = append(sps, s[1:]) // leading-dot form
			}
		}
		sps = append(sps, strconv.FormatFloat(f, 'e', 17, 64), strconv.FormatFloat(f, 'e', 20, 64))
		for _, src := range sps {
			n, err := parseSafe(src)
			evals++
			fltCases++
			order++
			kind, got := "", ""
			if err != nil {
				kind, got = "rejected", err.Error()
			} else if fn, ok := n.(*ast.FloatNode); !ok {
				kind, got = "not-a-float", fmt.Sprintf("%T", n)
			} else if math.Float64bits(fn.Value) != math.Float64bits(f) {
				kind, got = "value", strconv.FormatFloat(fn.Value, 'g', -1, 64)
			}
			if kind != "" {
				form := "decimal"
				if strings.ContainsAny(src, "eE") {
					form = "exponent"
				}
				if strings.HasPrefix(src, ".") {
					form = "leading-dot " + form
				}
				r.Report(report.Violation{Sub: "float", Kind: kind, Witness: form, Order: order,
					Detail: map[string]interface{}{"source": src, "expected": strconv.FormatFloat(f, 'g', -1, 64), "observed": got}})
			}
		}
	}
	distinct["floats"] = true
	// ---- positions ----
	posCases := c12Positions(r, &evals, order)
	r.Sample(map[string]interface{}{"string_literal": `"é\x41\101"`, "expected_value": "éAA"})
	r.Sample(map[string]interface{}{"integer_spellings_of_30": []string{"30", "3_0", "0x1e", "0x1E", "0x1_e"}})
	r.Sample(map[string]interface{}{"layout": "\"é\"\t\nnot in \n  a", "expected_positions": "1:0 2:0 3:2"})
	r.Set("string_cases", strCases)
	r.Set("integer_values", len(ints))
	r.Set("integer_cases", intCases)
	r.Set("float_values", len(fset))
	r.Set("float_cases", fltCases)
	r.Set("position_layouts", posCases)
	r.Set("evaluations", evals)
	r.Set("states", int64(len(strs)*2+len(ints)+len(fset))+posCases)
	r.Set("transitions", evals)
	r.Set("traces_validated_against_impl", evals)
	r.Set("distinct_nontrivial", int64(len(strs)*2+len(ints)+len(fset)))
	r.Set("exhaustive", true)
	r.Set("rule", "strings: every string of <= L runes over a 14-rune alphabet (NUL, controls, both quotes, backslash, ASCII, 2/3/4-byte runes, U+FFFD) x both quote styles x every combination of spellings (raw, named escape, \\x, \\u, \\U in both digit cases, 3-digit octal); integers: 0..4096, 2^k, 2^k+-1, 10^k+-1, every hex digit (and an 'e' digit) in every position x {decimal, '_' separators, 0x lower, 0x upper, hex with '_'}; floats: ~1500 finite values (extremes, subnormals, powers of 2 and 10, neighbours, 17-digit values) x {e,E,f,g shortest, fixed 17/20 digits, leading dot}; positions: every token sequence of <= 3 tokens x every whitespace choice per gap (+ length 4 with uniform whitespace), with multi-byte runes before the tokens")
	r.Assume("integer and float spaces are covered on boundary grids, not completely; raw CR/LF inside literals are excluded (newline normalisation is documented)")
	r.Assume("\\xHH denotes the code point U+00HH (the library's definition), \\' is an escape only inside '...' and \\\" only inside \"...\"")
}

func c12StringWitness(rs []rune, sp [][]string, c int, q rune) string {
	var parts []string
	x := c
	for k := range rs {
		s := sp[k][x%len(sp[k])]
		x /= len(sp[k])
		form := "raw"
		switch {
		case strings.HasPrefix(s, `\x`):
			form = `\x`
		case strings.HasPrefix(s, `\u`):
			form = `\u`
		case strings.HasPrefix(s, `\U`):
			form = `\U`
		case len(s) == 4 && s[0] == '\\':
			form = "octal"
		case len(s) == 2 && s[0] == '\\':
			form = s
		}
		if form == `\x` || form == `\u` || form == `\U` {
			if s != strings.ToLower(s[:2])+strings.ToLower(s[2:]) || strings.ToUpper(s[2:]) == s[2:] && strings.ToLower(s[2:]) != s[2:] {
				form += " upper-case digits"
			} else if strings.ToLower(s[2:]) != strings.ToUpper(s[2:]) {
				form += " lower-case digits"
			}
		}
		parts = append(parts, fmt.Sprintf("U+%04X as %s", rs[k], form))
	}
	return fmt.Sprintf("quote %c: %s", q, strings.Join(parts, ", "))
}

var c12PosTokens = []struct {
	text  string
	kind  lexer.Kind
	value string
	solid bool // cannot merge with a neighbour when written without whitespace
}{
	{"a", lexer.Identifier, "a", false}, {"inx", lexer.Identifier, "inx", false}, {"ñ1", lexer.Identifier, "ñ1", false}, {"12", lexer.Number, "12", false}, {`"é😀"`, lexer.String, "é😀", true}, {`'s'`, lexer.String, "s", true},
	{"not", lexer.Operator, "not", false}, {"not in", lexer.Operator, "not in", false}, {"in", lexer.Operator, "in", false}, {"-", lexer.Operator, "-", false}, {"**", lexer.Operator, "**", false},
	{"==", lexer.Operator, "==", false}, {"..", lexer.Operator, "..", false}, {"?", lexer.Operator, "?", false}, {":", lexer.Operator, ":", false}, {"?.", lexer.Operator, "?.", false},
	{".", lexer.Operator, ".", false}, {"#", lexer.Operator, "#", false}, {",", lexer.Operator, ",", true},
	{"(", lexer.Bracket, "(", true}, {")", lexer.Bracket, ")", true}, {"[", lexer.Bracket, "[", true}, {"]", lexer.Bracket, "]", true}, {"{", lexer.Bracket, "{", true}, {"}", lexer.Bracket, "}", true},
}

var c12WS = []string{" ", "", "\t", "\n", " \n  ", "\r", "\r\n", "\u00a0", "\f\v", " \u00a0\u3000"}

// c12Hold: the tokens returned for one source are the caller's: lexing, parsing or compiling another source afterwards
// must not change them.
func c12Hold(r *report.Run, evals *int64, orderBase int64) {
	srcs := []string{"'héllo' +\n  name", "0x1F * (a ?. b)", "[1, 2.5e-3, \"s\"]", "not in", "a", "f(x, y) ? 1 : 2", "{k: #}", "1..3 in xs"}
	for i, a := range srcs {
		for j, b := range srcs {
			if i == j {
				continue
			}
			ta, err := lexSafe(a)
			if err != nil {
				continue
			}
			before := fmt.Sprint(ta)
			lexSafe(b)
			parseSafe(b)
			expr.Compile(b)
			atomic.AddInt64(evals, 1)
			if after := fmt.Sprint(ta); after != before {
				r.Report(report.Violation{Sub: "tokens", Kind: "changed-by-a-later-lex", Witness: fmt.Sprintf("%q then %q", a, b), Order: orderBase + int64(i*10+j), Detail: map[string]interface{}{"before": before, "after": after}})
				return
			}
		}
	}
}

func c12Positions(r *report.Run, evals *int64, orderBase int64) int64 {
	c12Hold(r, evals, orderBase-1000)
	nt := len(c12PosTokens)
	var cases int64
	check := func(idx []int, ws []int, order int64) {
		for k := 1; k < len(idx); k++ {
			if c12PosTokens[idx[k-1]].text == "not" && (c12PosTokens[idx[k]].text == "in" || c12PosTokens[idx[k]].text == "not in") {
				return // 'not' followed by 'in' IS the token 'not in'
			}
		}
		var sb strings.Builder
		type pos struct{ line, col int }
		var want []pos
		line, col := 1, 0
		emit := func(s string) {
			for _, ch := range s {
				if ch == '\n' {
					line++
					col = 0
				} else {
					col++
				}
			}
			sb.WriteString(s)
		}
		for k, ti := range idx {
			w := c12WS[ws[k]]
			if w == "" && k > 0 && !(c12PosTokens[ti].solid || c12PosTokens[idx[k-1]].solid) {
				w = " "
			}
			emit(w)
			want = append(want, pos{line, col})
			emit(c12PosTokens[ti].text)
		}
		src := sb.String()
		toks, err := lexSafe(src)
		atomic.AddInt64(evals, 1)
		atomic.AddInt64(&cases, 1)
		if err != nil {
			r.Report(report.Violation{Sub: "position", Kind: "rejected", Witness: c12PosWitness(idx, -1), Order: order,
				Detail: map[string]interface{}{"source": src, "error": err.Error()}})
			return
		}
		if len(toks) != len(idx)+1 {
			r.Report(report.Violation{Sub: "position", Kind: "token-count", Witness: c12PosWitness(idx, -1), Order: order,
				Detail: map[string]interface{}{"source": src, "tokens": fmt.Sprint(toks)}})
			return
		}
		// the end-of-input token sits on the last rune of the source (errors "at the end" are reported there)
		if rs := []rune(src); len(rs) > 0 {
			el, ec := 1, 0
			for _, ch := range rs[:len(rs)-1] {
				if ch == '\n' {
					el, ec = el+1, 0
				} else {
					ec++
				}
			}
			if eof := toks[len(idx)]; eof.Kind == lexer.EOF && (eof.Line != el || eof.Column != ec) {
				r.Report(report.Violation{Sub: "position", Kind: "location", Witness: "end of input after token " + c12PosTokens[idx[len(idx)-1]].text, Order: order,
					Detail: map[string]interface{}{"source": src, "expected": fmt.Sprintf("%d:%d", el, ec), "observed": fmt.Sprintf("%d:%d", eof.Line, eof.Column)}})
				return
			}
		}
		for k, ti := range idx {
			t := toks[k]
			e := c12PosTokens[ti]
			if t.Kind != e.kind || t.Value != e.value {
				r.Report(report.Violation{Sub: "position", Kind: "token", Witness: c12PosWitness(idx, k), Order: order,
					Detail: map[string]interface{}{"source": src, "expected": e.text, "observed": t.String()}})
				return
			}
			if t.Line != want[k].line || t.Column != want[k].col {
				prev := "start"
				if k > 0 {
					prev = c12PosTokens[idx[k-1]].text
				}
				wsName := strconv.Quote(c12WS[ws[k]])
				r.Report(report.Violation{Sub: "position", Kind: "location", Witness: fmt.Sprintf("token %s after %s and whitespace %s", e.text, prev, wsName), Order: order,
					Detail: map[string]interface{}{"source": src, "token_index": k, "expected": fmt.Sprintf("%d:%d", want[k].line, want[k].col), "observed": fmt.Sprintf("%d:%d", t.Line, t.Column)}})
				return
			}
		}
	}
	maxL := 3
	for L := 1; L <= maxL; L++ {
		total := 1
		for i := 0; i < L; i++ {
			total *= nt * len(c12WS)
		}
		if L == 3 && r.Tier == "never" { // the reduced form of the first version; the full product is affordable
			// length 3: all token triples, whitespace uniform per layout + the first gap varied
			total = nt * nt * nt * len(c12WS) * len(c12WS)
			par.For(total, func(i int) {
				x := i
				w1 := x % len(c12WS)
				x /= len(c12WS)
				w2 := x % len(c12WS)
				x /= len(c12WS)
				idx := []int{x % nt, (x / nt) % nt, (x / nt / nt) % nt}
				check(idx, []int{w1, w2, w1}, orderBase+int64(i))
			})
			continue
		}
		par.For(total, func(i int) {
			idx := make([]int, L)
			ws := make([]int, L)
			x := i
			for k := 0; k < L; k++ {
				idx[k] = x % nt
				x /= nt
				ws[k] = x % len(c12WS)
				x /= len(c12WS)
			}
			check(idx, ws, orderBase+int64(i))
		})
	}
	if r.Tier == "thorough" {
		total := nt * nt * nt * nt * len(c12WS)
		par.For(total, func(i int) {
			x := i
			w := x % len(c12WS)
			x /= len(c12WS)
			idx := []int{x % nt, (x / nt) % nt, (x / nt / nt) % nt, (x / nt / nt / nt) % nt}
			check(idx, []int{w, w, w, w}, orderBase+int64(i))
		})
	}
	return cases
}

func c12PosWitness(idx []int, k int) string {
	var p []string
	for _, i := range idx {
		p = append(p, c12PosTokens[i].text)
	}
	if k >= 0 {
		return fmt.Sprintf("token %d of [%s]", k, strings.Join(p, " "))
	}
	return "[" + strings.Join(p, " ") + "]"
}
