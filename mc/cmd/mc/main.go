// Command mc runs one property check: mc <Cxx> quick|thorough  |  mc <Cxx> --replay <file>
package main

import (
	"fmt"
	"os"
	"runtime/debug"
	"runtime/pprof"
	"sort"
	"strings"

	"verif/mc/report"
)

type checkFn func(r *report.Run)

var checks = map[string]checkFn{}
var replays = map[string]func(path string) int{}

func main() {
	if len(os.Args) < 3 {
		var ids []string
		for id := range checks {
			ids = append(ids, id)
		}
		sort.Strings(ids)
		fmt.Fprintf(os.Stderr, "usage: mc <property> quick|thorough | mc <property> --replay <file>\nproperties: %v\n", ids)
		os.Exit(2)
	}
	id := os.Args[1]
	if os.Args[2] == "--replay" {
		if len(os.Args) < 4 {
			fmt.Fprintln(os.Stderr, "missing replay file")
			os.Exit(2)
		}
		os.Exit(replayFile(id, os.Args[3]))
	}
	f, ok := checks[id]
	if !ok {
		fmt.Fprintf(os.Stderr, "unknown property %q\n", id)
		os.Exit(2)
	}
	debug.SetGCPercent(400)
	r := report.New(id, os.Args[2])
	if pf := os.Getenv("VERIF_PPROF"); pf != "" {
		fh, _ := os.Create(pf)
		pprof.StartCPUProfile(fh)
		f(r)
		pprof.StopCPUProfile()
		fh.Close()
		r.Finish()
	}
	f(r)
	if !strings.HasPrefix(id, "C") {
		return // helper commands (counts, overlay-gen) write no evidence
	}
	r.Finish()
}
