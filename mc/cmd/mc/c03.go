package main

import (
	"fmt"
	"reflect"
	"strings"
	"sync/atomic"

	"github.com/antonmedv/expr"
	"github.com/antonmedv/expr/checker"
	"github.com/antonmedv/expr/conf"
	"github.com/antonmedv/expr/parser"

	"verif/mc/gen"
	"verif/mc/henv"
	"verif/mc/lib"
	"verif/mc/ref"
	"verif/mc/report"
)

// C03: static typing is sound and rejects ill-typed expressions.
// (i) every well-typed, statically typed expression: Compile succeeds, no run fails where
// the (dynamically typed) reference succeeds, the result has the type checker.Check
// reported, and exactly bool/int64/float64 under AsBool/AsInt64/AsFloat64;
// (ii) every single-fault mutant (every position x fault kind) is rejected by Compile.

func c03StaticTypeErr(src string) (t reflect.Type, err error) {
	defer func() {
		if r := recover(); r != nil {
			t, err = nil, fmt.Errorf("PANIC: %v", r)
		}
	}()
	tree, perr := parser.Parse(src)
	if perr != nil {
		return nil, perr
	}
	return checker.Check(tree, conf.New(henv.Env{}))
}

// sliceTyped: statically typed members only (every numeric kind, strings, bools, structs, slices, maps, functions, methods).
func sliceTyped() *slice {
	T := gen.TBool
	rules := []*gen.Rule{
		gen.Var("I", gen.TInt), gen.Var("F", gen.TFloat), gen.Var("S", gen.TStr), gen.Var("B", T),
		gen.Var("I8", gen.TI8), gen.Var("U8", gen.TU8), gen.Var("I64", gen.TI64), gen.Var("F32", gen.TF32), gen.Var("U", gen.TU),
		gen.Var("A", gen.TIntArr), gen.Var("SA", gen.TStrArr), gen.Var("M", gen.TMap), gen.Var("O", gen.TObj), gen.Var("OS", gen.TObjArr), gen.Var("FA", gen.TFloatArr),
		gen.Lit("1", gen.TInt, 1), gen.Lit("2.5", gen.TFloat, 2.5), gen.Lit(`"a"`, gen.TStr, "a"),
		gen.Hash(gen.TInt), gen.Hash(gen.TFloat), gen.Hash(gen.TStr),
		gen.Un("-", gen.TInt, gen.TInt), gen.Un("-", gen.TI8, gen.TI8), gen.Un("-", gen.TFloat, gen.TFloat), gen.Un("not", T, T),
		gen.Bin("and", T, T, T), gen.Bin("==", gen.TStr, gen.TStr, T), gen.Bin("+", gen.TStr, gen.TStr, gen.TStr),
		gen.Bin("in", gen.TInt, gen.TIntArr, T), gen.Bin("in", gen.TStr, gen.TStrArr, T), gen.Bin("in", gen.TStr, gen.TMap, T), gen.Bin("..", gen.TInt, gen.TInt, gen.TIntArr),
		gen.Bin("contains", gen.TStr, gen.TStr, T),
		gen.Index(gen.TIntArr, gen.TInt, gen.TInt), gen.Index(gen.TStrArr, gen.TInt, gen.TStr), gen.Index(gen.TMap, gen.TStr, gen.TInt), gen.Index(gen.TObjArr, gen.TInt, gen.TObj), gen.Index(gen.TFloatArr, gen.TInt, gen.TFloat),
		gen.Slice("f", gen.TIntArr), gen.Slice("t", gen.TStr), gen.Slice("ft", gen.TStrArr),
		gen.Prop(gen.TObj, "N", gen.TInt, false), gen.Prop(gen.TObj, "Name", gen.TStr, false), gen.Prop(gen.TObj, "Next", gen.TObj, false),
		gen.Method(gen.TObj, "Get", gen.TInt, false), gen.Method(gen.TObj, "Plus", gen.TInt, false, gen.TInt), gen.Method(gen.TObj, "Title", gen.TStr, false),
		gen.Call("Id", gen.TInt, gen.TInt), gen.Call("Add", gen.TInt, gen.TInt, gen.TInt), gen.Call("Cat", gen.TStr, gen.TStr, gen.TStr), gen.Call("Half", gen.TFloat, gen.TFloat),
		gen.Call("TakesI8", gen.TI8, gen.TI8), gen.Call("TakesI64", gen.TI64, gen.TI64), gen.Call("TakesArr", gen.TInt, gen.TIntArr), gen.Call("Sum", gen.TInt, gen.TInt, gen.TInt),
		gen.Call("FnInc", gen.TInt, gen.TInt), gen.Call("Pos", T, gen.TInt),
		gen.Len(gen.TIntArr), gen.Len(gen.TStr), gen.Len(gen.TMap),
		gen.Cond(gen.TInt), gen.Cond(gen.TStr), gen.Cond(gen.TFloat),
		gen.Builtin("all", gen.TIntArr, T, T), gen.Builtin("any", gen.TStrArr, T, T), gen.Builtin("count", gen.TFloatArr, T, gen.TInt),
		gen.Builtin("filter", gen.TIntArr, T, gen.TIntArr), gen.Builtin("map", gen.TIntArr, gen.TInt, gen.TIntArr), gen.Builtin("map", gen.TStrArr, gen.TInt, gen.TIntArr),
		gen.Builtin("one", gen.TObjArr, T, T), gen.HashProp("N", gen.TInt),
	}
	nums := []gen.Ty{gen.TInt, gen.TFloat, gen.TI8, gen.TU8, gen.TI64, gen.TF32, gen.TU}
	rank := map[gen.Ty]int{gen.TU: 0, gen.TU8: 1, gen.TInt: 5, gen.TI8: 6, gen.TI64: 9, gen.TF32: 10, gen.TFloat: 11}
	for _, a := range nums {
		for _, b := range nums {
			if !(a == gen.TInt || b == gen.TInt || a == b || a == gen.TFloat || b == gen.TFloat) {
				continue
			}
			out := a
			if rank[b] > rank[a] {
				out = b
			}
			rules = append(rules, gen.Bin("+", a, b, out), gen.Bin("<", a, b, T), gen.Bin("==", a, b, T))
			if a == b || a == gen.TInt && b == gen.TFloat {
				rules = append(rules, gen.Bin("*", a, b, out), gen.Bin("/", a, b, out), gen.Bin("-", a, b, out), gen.Bin("**", a, b, gen.TFloat))
			}
		}
	}
	rules = append(rules, gen.Bin("%", gen.TInt, gen.TInt, gen.TInt), gen.Bin("%", gen.TI64, gen.TInt, gen.TI64))
	return &slice{name: "typed", g: gen.NewGrammar(rules),
		tops:  []gen.NT{nt(T), nt(gen.TInt), nt(gen.TFloat), nt(gen.TStr), nt(gen.TIntArr), nt(gen.TI8), nt(gen.TU8), nt(gen.TI64), nt(gen.TF32), nt(gen.TU), nt(gen.TObj), nt(gen.TStrArr)},
		modes: nil, maxN: map[string]int{"quick": 4, "thorough": 5}}
}

var c03GoType = map[gen.Ty]reflect.Type{
	gen.TBool: reflect.TypeOf(true), gen.TInt: reflect.TypeOf(0), gen.TFloat: reflect.TypeOf(0.0), gen.TStr: reflect.TypeOf(""),
	gen.TI8: reflect.TypeOf(int8(0)), gen.TU8: reflect.TypeOf(uint8(0)), gen.TI64: reflect.TypeOf(int64(0)), gen.TF32: reflect.TypeOf(float32(0)), gen.TU: reflect.TypeOf(uint(0)),
}

func isNumTy(t gen.Ty) bool {
	switch t {
	case gen.TInt, gen.TFloat, gen.TI8, gen.TU8, gen.TI64, gen.TF32, gen.TU:
		return true
	}
	return false
}

// c03Sound checks part (i) for one expression; kind "" = fine.
func c03Sound(e *gen.Expr, only string) (kind, detail string, val henv.Val, runs int64) {
	src := e.String()
	vals := henv.Valuations(gen.Vars(e))
	names := gen.Names(e)
	st, serr := c03StaticTypeErr(src)
	type variant struct {
		name string
		opts []expr.Option
		want reflect.Type
	}
	vs := []variant{{"plain", nil, nil}, {"plain-noopt", []expr.Option{expr.Optimize(false)}, nil}}
	if e.R.Out == gen.TBool {
		vs = append(vs, variant{"AsBool", []expr.Option{expr.AsBool()}, reflect.TypeOf(true)})
	}
	if isNumTy(e.R.Out) {
		vs = append(vs, variant{"AsInt64", []expr.Option{expr.AsInt64()}, reflect.TypeOf(int64(0))}, variant{"AsFloat64", []expr.Option{expr.AsFloat64()}, reflect.TypeOf(float64(0))})
	}
	fail := func(k, d string, v henv.Val) (string, string, henv.Val, int64) {
		if only != "" && only != k {
			return "", "", nil, runs
		}
		return k, d, v, runs
	}
	for _, vr := range vs {
		m := lib.Mode{Env: "struct", Opt: true}
		ops := append([]expr.Option{expr.Env(henv.Env{})}, vr.opts...)
		p, err := func() (p interface{}, err error) {
			defer func() {
				if r := recover(); r != nil {
					err = fmt.Errorf("PANIC %v", r)
				}
			}()
			return expr.Compile(src, ops...)
		}()
		if err != nil {
			if ref.HasConstDivZero(e) {
				continue
			}
			if k, d, v, n := fail("well-typed-rejected/"+vr.name, err.Error(), henv.Val{}); k != "" {
				return k, d, v, n
			}
			continue
		}
		_ = p
		prog, _ := expr.Compile(src, ops...)
		for _, v := range vals {
			res := ref.Eval(e, henv.Make(v))
			out, err := lib.Run(prog, m.RunEnv(henv.Make(v), names))
			runs++
			if err != nil {
				if !res.Failed {
					if k, d, vv, n := fail("type-failure-at-run-time/"+vr.name, err.Error(), v); k != "" {
						return k, d, vv, n
					}
				}
				continue
			}
			if res.Failed {
				continue
			}
			if vr.want != nil {
				if reflect.TypeOf(out) != vr.want {
					if k, d, vv, n := fail("directive-type/"+vr.name, fmt.Sprintf("result %T, want %v", out, vr.want), v); k != "" {
						return k, d, vv, n
					}
				}
				continue
			}
			if serr == nil && st != nil {
				ot := reflect.TypeOf(out)
				okT := ot == st || (st.Kind() == reflect.Interface && (ot == nil || ot.AssignableTo(st)))
				if out == nil {
					switch st.Kind() {
					case reflect.Ptr, reflect.Slice, reflect.Map, reflect.Interface, reflect.Func:
						okT = true // nil is a value of every nil-able type
					}
				}
				if !okT {
					if k, d, vv, n := fail("result-type-differs-from-checker", fmt.Sprintf("checker reports %v, result is %T", st, out), v); k != "" {
						return k, d, vv, n
					}
				}
			}
		}
	}
	return "", "", nil, runs
}

type c03Mutant struct {
	e    *gen.Expr
	kind string // fault kind + context
}

func c03Mutants(e *gen.Expr) []c03Mutant {
	var out []c03Mutant
	var paths []string
	allPaths(e, "", &paths)
	nilsafe := false
	e.Walk(func(y *gen.Expr) {
		if strings.HasSuffix(y.R.Op, "?") {
			nilsafe = true
		}
	})
	lit := func(t gen.Ty) *gen.Expr {
		switch t {
		case gen.TStr:
			return &gen.Expr{R: gen.Lit(`"w"`, gen.TStr, "w")}
		case gen.TBool:
			return &gen.Expr{R: gen.Lit("true", gen.TBool, true)}
		}
		return &gen.Expr{R: gen.Lit("7", gen.TInt, 7)}
	}
	wrong := func(t gen.Ty) *gen.Expr {
		if t == gen.TStr {
			return lit(gen.TInt)
		}
		return lit(gen.TStr)
	}
	scalar := func(t gen.Ty) bool { return isNumTy(t) || t == gen.TStr || t == gen.TBool }
	for _, pth := range paths {
		x := subAt(e, pth)
		add := func(m *gen.Expr, kind string) { out = append(out, c03Mutant{m, kind}) }
		switch x.R.Op {
		case "var":
			if !nilsafe {
				add(replacePath(e, pth, &gen.Expr{R: gen.Var("Zz", x.R.Out)}), "unknown-name")
			}
		case "call":
			c := *x.R
			c.Arg = "Zzf"
			c.Fmt = strings.Replace(c.Fmt, x.R.Arg+"(", "Zzf(", 1)
			add(replacePath(e, pth, &gen.Expr{R: &c, Kids: x.Kids}), "unknown-function")
			variadic := x.R.Arg == "Sum" || x.R.Arg == "Fast" || x.R.Arg == "Pack" || x.R.Arg == "PickV"
			if x.R.Arg == "PickV" {
				// one fixed parameter before the variadic ones: no argument at all is too few
				c0 := *x.R
				c0.In, c0.Fmt = nil, "PickV()"
				add(replacePath(e, pth, &gen.Expr{R: &c0}), "not-enough-arguments")
			}
			if !variadic {
				// arity + 1
				c2 := *x.R
				c2.In = append(append([]gen.Slot{}, x.R.In...), gen.Slot{T: gen.TInt, Closure: -1})
				if len(x.R.In) == 0 {
					c2.Fmt = x.R.Arg + "(%s)"
				} else {
					c2.Fmt = strings.TrimSuffix(x.R.Fmt, ")") + ", %s)"
				}
				add(replacePath(e, pth, &gen.Expr{R: &c2, Kids: append(append([]*gen.Expr{}, x.Kids...), lit(gen.TInt))}), "too-many-arguments")
				if len(x.Kids) > 0 {
					c3 := *x.R
					c3.In = x.R.In[:len(x.R.In)-1]
					if len(c3.In) == 0 {
						c3.Fmt = x.R.Arg + "()"
					} else {
						c3.Fmt = x.R.Arg + "(" + strings.Repeat("%s, ", len(c3.In)-1) + "%s)"
					}
					add(replacePath(e, pth, &gen.Expr{R: &c3, Kids: x.Kids[:len(x.Kids)-1]}), "not-enough-arguments")
				}
			}
			for i, s := range x.R.In {
				if s.T == gen.TFloat || s.T == gen.TI8 || s.T == gen.TI64 || s.T == gen.TU8 || s.T == gen.TF32 {
					iv := &gen.Expr{R: gen.Var("I", gen.TInt)}
					one := &gen.Expr{R: gen.Lit("1", gen.TInt, 1)}
					add(replacePath(e, fmt.Sprintf("%s.%d", pth, i), &gen.Expr{R: gen.Bin("%", gen.TInt, gen.TInt, gen.TInt), Kids: []*gen.Expr{iv, one}}), "argument-type: int modulo for a "+s.T.String()+" parameter")
					add(replacePath(e, fmt.Sprintf("%s.%d", pth, i), &gen.Expr{R: gen.Bin("+", gen.TInt, gen.TInt, gen.TInt), Kids: []*gen.Expr{iv, iv}}), "argument-type: int arithmetic of variables for a "+s.T.String()+" parameter")
				}
			}
			anyParam := x.R.Arg == "Fast" || x.R.Arg == "Pick" || x.R.Arg == "Pack" || x.R.Arg == "Second" || x.R.Arg == "TakesAny" || x.R.Arg == "IsNil"
			for i, s := range x.R.In {
				if scalar(s.T) && !anyParam && !(x.R.Arg == "PickV" && i > 0) {
					add(replacePath(e, fmt.Sprintf("%s.%d", pth, i), wrong(s.T)), "argument-type at call "+x.R.Arg)
				}
			}
		case "method":
			c := *x.R
			c.Fmt = strings.Replace(c.Fmt, "."+x.R.Arg+"(", ".Zzm(", 1)
			if !nilsafe {
				add(replacePath(e, pth, &gen.Expr{R: &c, Kids: x.Kids}), "unknown-method")
			}
			for i := 1; i < len(x.R.In); i++ {
				if scalar(x.R.In[i].T) && x.R.Arg != "Pick" {
					add(replacePath(e, fmt.Sprintf("%s.%d", pth, i), wrong(x.R.In[i].T)), "argument-type at method "+x.R.Arg)
				}
			}
		case "prop":
			if !nilsafe && x.R.In[0].T == gen.TObj {
				c := *x.R
				c.Fmt = strings.Replace(c.Fmt, "."+x.R.Arg, ".Zzp", 1)
				add(replacePath(e, pth, &gen.Expr{R: &c, Kids: x.Kids}), "unknown-field")
			}
		case "bin":
			lt, rt := x.R.In[0].T, x.R.In[1].T
			op := x.R.Arg
			if op == "%" {
				// the remainder is defined for integers only: a float operand (literal, member, quotient) is a mismatch
				for i := 0; i < 2; i++ {
					add(replacePath(e, fmt.Sprintf("%s.%d", pth, i), &gen.Expr{R: gen.Lit("2.5", gen.TFloat, 2.5)}), "operand-mismatch: float literal under %")
					add(replacePath(e, fmt.Sprintf("%s.%d", pth, i), &gen.Expr{R: gen.Var("F", gen.TFloat)}), "operand-mismatch: float member under %")
					add(replacePath(e, fmt.Sprintf("%s.%d", pth, i), &gen.Expr{R: gen.Var("F32", gen.TF32)}), "operand-mismatch: float32 member under %")
				}
			}
			switch op {
			case "in", "not in":
				add(replacePath(e, pth+".1", lit(gen.TInt)), "operand-mismatch: "+op+" with a non-collection")
				if rt == gen.TMap {
					add(replacePath(e, pth+".0", lit(gen.TInt)), "operand-mismatch: int in map[string]")
				}
			case "..":
				add(replacePath(e, pth+".1", lit(gen.TStr)), "operand-mismatch: ..")
				add(replacePath(e, pth+".0", &gen.Expr{R: gen.Lit("2.5", gen.TFloat, 2.5)}), "operand-mismatch: float ..")
			default:
				if scalar(lt) && scalar(rt) {
					add(replacePath(e, pth+".1", wrong(lt)), "operand-mismatch: "+op)
					add(replacePath(e, pth+".0", wrong(rt)), "operand-mismatch: "+op)
					if op == "%" {
						add(replacePath(e, pth+".1", &gen.Expr{R: gen.Lit("2.5", gen.TFloat, 2.5)}), "operand-mismatch: % float")
					}
				}
			}
		case "un":
			add(replacePath(e, pth+".0", wrong(x.R.In[0].T)), "operand-mismatch: unary "+x.R.Arg)
		case "cond":
			add(replacePath(e, pth+".0", lit(gen.TInt)), "non-boolean-condition")
		case "builtin":
			add(replacePath(e, pth+".0", lit(gen.TInt)), "non-collection-builtin-argument "+x.R.Arg)
			add(replacePath(e, pth+".0", &gen.Expr{R: gen.Var("M", gen.TMap)}), "map-as-builtin-collection "+x.R.Arg)
			add(replacePath(e, pth+".0", &gen.Expr{R: gen.Var("S", gen.TStr)}), "string-as-builtin-collection "+x.R.Arg)
			if x.R.In[1].T == gen.TBool {
				add(replacePath(e, pth+".1", lit(gen.TInt)), "non-boolean-predicate "+x.R.Arg)
			}
		case "len":
			add(replacePath(e, pth+".0", lit(gen.TInt)), "non-collection-builtin-argument len")
		case "index":
			if x.R.In[0].T == gen.TMap {
				add(replacePath(e, pth+".1", lit(gen.TInt)), "index-type: map[string] indexed by int")
			} else {
				add(replacePath(e, pth+".1", lit(gen.TStr)), "index-type: array indexed by string")
				add(replacePath(e, pth+".1", lit(gen.TBool)), "index-type: array indexed by bool")
			}
			add(replacePath(e, pth+".0", lit(gen.TInt)), "index-of-non-collection")
		case "slice":
			if len(x.Kids) > 1 {
				add(replacePath(e, pth+".1", lit(gen.TStr)), "slice-bound-type")
			}
			if len(x.Kids) > 2 {
				add(replacePath(e, pth+".2", lit(gen.TStr)), "slice-bound-type (upper)")
			}
			if x.R.Arg == "t" {
				add(replacePath(e, pth+".1", &gen.Expr{R: gen.Var("Zz", gen.TInt)}), "unknown-name in open-start slice bound")
			}
			add(replacePath(e, pth+".0", lit(gen.TInt)), "slice-of-non-collection")
		}
	}
	return out
}

func init() { checks["C03"] = c03 }

func c03(r *report.Run) {
	slices := []*slice{sliceTyped(), sliceScalar(), sliceAccess(), sliceLoops()}
	budget := map[string]map[string]int{"quick": {"typed": 5, "scalar": 4, "access": 5, "loops": 6}, "thorough": {"typed": 6, "scalar": 5, "access": 6, "loops": 7}}
	for _, sl := range slices {
		sl.maxN = map[string]int{r.Tier: budget[r.Tier][sl.name]}
	}
	var mutants, rejected int64
	runSlices(r, slices, func(sl *slice, e *gen.Expr, order int64) (int64, []string) {
		dynamic := false
		e.Walk(func(x *gen.Expr) {
			if x.R.Out == gen.TAny || x.R.Out == gen.TAnyArr || x.R.Out == gen.TAnyMap || x.R.Out == gen.TNil {
				dynamic = true
			}
		})
		var runs int64
		if !dynamic {
			kind, detail, val, n := c03Sound(e, "")
			runs += n
			if kind != "" {
				w := sl.g.Shrink(e, func(c *gen.Expr) bool {
					k, _, _, _ := c03Sound(c, kind)
					return k == kind
				})
				r.Report(report.Violation{Sub: "soundness", Kind: kind, Witness: w.String(), Order: order,
					Detail: map[string]interface{}{"source": e.String(), "minimal_source": w.String(), "env": val.Describe(), "what": detail}})
			}
		}
		if e.Size() <= sl.maxN[r.Tier]-1 || sl.name == "typed" {
			for _, mu := range c03Mutants(e) {
				src := mu.e.String()
				atomic.AddInt64(&mutants, 1)
				for _, opt := range []bool{true, false} {
					_, err := lib.Compile(src, lib.Mode{Env: "struct", Opt: opt})
					if err != nil {
						atomic.AddInt64(&rejected, 1)
						continue
					}
					r.Report(report.Violation{Sub: "rejection", Kind: "ill-typed-accepted", Witness: mu.kind, Order: order,
						Detail: map[string]interface{}{"source": src, "derived_from": e.String(), "optimize": opt}})
				}
			}
		}
		return runs, nil
	})
	// environments given as typed maps, and a value environment compiled after a pointer environment
	famOrder := int64(1) << 41
	type fam struct {
		env    interface{}
		name   string
		reject []string
		accept []string
	}
	fams := []fam{
		{map[string]int{"a": 1, "b": 2}, "map[string]int", []string{"zz", "zz + 1", "a + zz", "all(1..2, {zz > #})", `a + "s"`, "a.b"}, []string{"a", "a + b", "a > 1 ? a : b"}},
		{map[string]string{"a": "x"}, "map[string]string", []string{"zz", `zz + "s"`, "a + 1", "len(zz)"}, []string{"a", `a + "s"`, "len(a)"}},
		{map[string][]int{"a": {1}}, "map[string][]int", []string{"zz", "len(zz)", "zz[0]"}, []string{"a[0]", "len(a)"}},
		{map[string]interface{}{"a": 1, "f": func(int) int { return 1 }}, "map[string]interface{}", []string{"zz", "zz + 1", "f(zz)", `f("s")`, "f()"}, []string{"a + 1", "f(a)"}},
	}
	for _, f := range fams {
		for _, src := range f.reject {
			famOrder++
			atomic.AddInt64(&mutants, 1)
			if _, err := c16Compile(src, expr.Env(f.env)); err == nil {
				r.Report(report.Violation{Sub: "rejection", Kind: "ill-typed-accepted", Witness: "unknown name or mismatch in a " + f.name + " environment", Order: famOrder, Detail: map[string]interface{}{"source": src, "env": f.name}})
			} else {
				atomic.AddInt64(&rejected, 1)
			}
		}
		for _, src := range f.accept {
			famOrder++
			if _, err := c16Compile(src, expr.Env(f.env)); err != nil {
				r.Report(report.Violation{Sub: "soundness", Kind: "well-typed-rejected/typed-map", Witness: src + " in a " + f.name + " environment", Order: famOrder, Detail: map[string]interface{}{"error": err.Error()}})
			}
		}
	}
	// conditionals whose branches have different static types; nil branches under result directives
	for _, c := range []struct {
		src string
		opt expr.Option
		dir string
	}{
		{"B ? I : F", nil, ""}, {"B ? F : I", nil, ""}, {"B ? U : I", nil, ""}, {"B ? I8 : I", nil, ""}, {"(B ? U : I) == 3", nil, ""}, {"(B ? I8 : I) in [1, 2]", nil, ""},
		{"B ? nil : F", expr.AsFloat64(), "float64"}, {"B ? I64 : nil", expr.AsInt64(), "int64"}, {"B ? F : nil", expr.AsFloat64(), "float64"}, {"B ? I : F", expr.AsFloat64(), "float64"}, {"B ? I64 : U8", expr.AsInt64(), "int64"},
		{"P?.N", expr.AsInt64(), "int64"}, {"O?.Next?.N", expr.AsInt64(), "int64"}, {"B ? T1() : F1()", expr.AsBool(), "bool"},
		{"B ? true : I", expr.AsBool(), "bool"}, {"X", expr.AsBool(), "bool"}, {"AA[0]", expr.AsBool(), "bool"}, {"B ? I64 : X", expr.AsInt64(), "int64"}, {"I64 + X", expr.AsInt64(), "int64"},
		{"B ? F : X", expr.AsFloat64(), "float64"}, {"F + X", expr.AsFloat64(), "float64"},
	} {
		famOrder++
		ops := []expr.Option{expr.Env(henv.Env{})}
		if c.opt != nil {
			ops = append(ops, c.opt)
		}
		p, err := c16Compile(c.src, ops...)
		if err != nil {
			continue
		}
		static := c03StaticType(c.src)
		for _, b := range []bool{true, false} {
			env := henv.MakeFull(henv.Val{})
			env.B = b
			env.X = 1.5 // the dynamic member holds a float: an int64 result needs the cast
			out, rerr := c16Run(p, *env)
			if rerr != nil {
				continue // a nil under a numeric directive fails: a value-dependent failure
			}
			ot := reflect.TypeOf(out)
			if c.dir != "" {
				if ot == nil || ot.String() != c.dir {
					r.Report(report.Violation{Sub: "soundness", Kind: "directive-type/family", Witness: c.src + " as " + c.dir, Order: famOrder, Detail: map[string]interface{}{"B": b, "result": fmt.Sprintf("%T", out)}})
				}
			} else if static != nil && static.Kind() != reflect.Interface && ot != static {
				r.Report(report.Violation{Sub: "soundness", Kind: "result-type-differs-from-checker", Witness: c.src, Order: famOrder, Detail: map[string]interface{}{"B": b, "checker": fmt.Sprint(static), "result": fmt.Sprintf("%T", out)}})
			}
		}
		// and the reference evaluator decides whether a failure is a type-reason failure
	}
	// the short conditional needs a boolean left operand like the long one
	for _, src := range []string{"I ?: 5", `S ?: "a"`, "O ?: P", "[I ?: 1]", "Id(I ?: 2)", "B ? (F ?: 1.5) : 2.5", "all(A, {# ?: 1})", "A ?: A"} {
		famOrder++
		for _, opt := range []bool{true, false} {
			if _, err := c16Compile(src, expr.Env(henv.Env{}), expr.Optimize(opt)); err == nil {
				r.Report(report.Violation{Sub: "rejection", Kind: "ill-typed-accepted", Witness: "non-boolean-condition in the short conditional: " + src, Order: famOrder, Detail: map[string]interface{}{"source": src, "optimize": opt}})
				break
			}
		}
	}
	for _, src := range []string{"PtrOnly()", "PtrOnly() + I", "T1() and PtrOnly() > 0"} {
		famOrder++
		c16Compile(src, expr.Env(&henv.Env{}))
		if _, err := c16Compile(src, expr.Env(henv.Env{})); err == nil {
			r.Report(report.Violation{Sub: "rejection", Kind: "ill-typed-accepted", Witness: "pointer-receiver method on a value environment after a pointer environment was compiled", Order: famOrder, Detail: map[string]interface{}{"source": src}})
		}
	}
	r.Set("single_fault_mutants", mutants)
	r.Set("mutant_compilations_rejected", rejected)
	r.Set("distinct_nontrivial", mutants)
	r.Assume("well-typedness is by construction of the typed grammar (reference typing rules of DESIGN.md Appendix E); soundness is asserted only for expressions without interface{}-typed sub-expressions")
	r.Assume("a run that fails where the dynamically typed reference evaluator succeeds on well-typed operands is a type-reason failure; no error text is parsed")
}

func c03StaticType(src string) reflect.Type {
	t, _ := c03StaticTypeErr(src)
	return t
}
