package main

import (
	"fmt"
	"sort"
	"strconv"
	"strings"
	"sync"
	"sync/atomic"

	"github.com/antonmedv/expr/file"
	"github.com/antonmedv/expr/parser"
	"github.com/antonmedv/expr/parser/lexer"

	"verif/mc/gen"
	"verif/mc/par"
	"verif/mc/refparse"
	"verif/mc/report"
)

// C11: parsing follows the documented precedence and associativity.
// (i) every syntax tree of a syntactic grammar up to a node budget: printed with a
// locally minimal set of parentheses (decided by the independent reference parser),
// fully parenthesised, and in several whitespace layouts, the real parser must return
// the same tree; (ii) every token sequence up to a length bound over a token alphabet:
// the real parser accepts iff the reference grammar accepts, with the same tree.

func realParse(src string) (sexp string, err error) {
	defer func() {
		if r := recover(); r != nil {
			sexp, err = "", fmt.Errorf("PANIC: %v", r)
		}
	}()
	t, e := parser.Parse(src)
	if e != nil {
		return "", e
	}
	return refparse.Sexp(t.Node), nil
}

// ---- (i) trees ----

func c11Grammar(reps bool) *gen.Grammar {
	E := gen.TAny
	op := func(t gen.Ty) gen.Slot { return gen.Slot{T: t, Operand: true, Closure: -1} }
	condE := &gen.Rule{Op: "cond", Out: E, In: []gen.Slot{op(E), op(E), op(E)}, Fmt: "%s ? %s : %s"}
	rules := []*gen.Rule{
		gen.Lit("a", E, nil), gen.Lit("b", E, nil), gen.Lit("1", E, nil), gen.Lit(`"s"`, E, nil), gen.Lit("true", E, nil),
		{Op: "hash", Out: E, Atom: true, NeedElem: E, Fmt: "#"},
		gen.Un("not", E, E), gen.Un("-", E, E), gen.Un("!", E, E),
	}
	ops := []string{"or", "and", "==", "<", "in", "not in", "matches", "contains", "..", "+", "-", "*", "%", "**", "||", "&&", "!=", ">=", "startsWith", "endsWith", "/", ">", "<="}
	if reps {
		// one representative per precedence class, fewer leaves: deeper trees
		ops = []string{"or", "and", "==", "..", "+", "*", "**"}
		rules = []*gen.Rule{gen.Lit("a", E, nil), gen.Lit("1", E, nil), {Op: "hash", Out: E, Atom: true, NeedElem: E, Fmt: "#"}, gen.Un("not", E, E), gen.Un("-", E, E)}
	}
	for _, o := range ops {
		rules = append(rules, gen.Bin(o, E, E, E))
	}
	if reps {
		rules = append(rules, condE, gen.Prop(E, "p", E, false), gen.Index(E, E, E), gen.Slice("f", E), gen.Call("f", E, E),
			&gen.Rule{Op: "builtin", Arg: "all", Out: E, Atom: true, In: []gen.Slot{{T: E, Closure: -1}, {T: E, Closure: 0}}, Fmt: "all(%s, {%s})"})
		return gen.NewGrammar(rules)
	}
	rules = append(rules,
		condE,
		gen.Prop(E, "p", E, false), gen.Prop(E, "p", E, true),
		gen.Index(E, E, E), gen.Slice("ft", E), gen.Slice("f", E), gen.Slice("t", E), gen.Slice("", E),
		gen.Method(E, "m", E, false, E), gen.Method(E, "m", E, false),
		gen.Call("f", E, E), gen.Call("f", E), gen.Call("f", E, E, E),
		&gen.Rule{Op: "builtin", Arg: "all", Out: E, Atom: true, In: []gen.Slot{{T: E, Closure: -1}, {T: E, Closure: 0}}, Fmt: "all(%s, {%s})"},
		&gen.Rule{Op: "len", Out: E, Atom: true, In: []gen.Slot{{T: E, Closure: -1}}, Fmt: "len(%s)"},
		&gen.Rule{Op: "arr", Out: E, Atom: true, In: []gen.Slot{{T: E, Closure: -1}, {T: E, Closure: -1}}, Fmt: "[%s, %s]"},
		&gen.Rule{Op: "arr", Out: E, Atom: true, In: []gen.Slot{{T: E, Closure: -1}}, Fmt: "[%s]"},
		&gen.Rule{Op: "map", Arg: "k", Out: E, Atom: true, In: []gen.Slot{{T: E, Closure: -1}}, Fmt: "{k: %s}"},
	)
	_ = op
	return gen.NewGrammar(rules)
}

// c11CallsGrammar: several calls with several arguments in one expression, nested in every argument position.
func c11CallsGrammar() *gen.Grammar {
	E := gen.TAny
	rules := []*gen.Rule{gen.Lit("a", E, nil), gen.Lit("1", E, nil),
		gen.Call("f", E, E), gen.Call("f", E, E, E), gen.Call("g", E, E, E, E), gen.Call("h", E),
		gen.Method(E, "m", E, false, E, E), gen.Bin("+", E, E, E),
		&gen.Rule{Op: "arr", Out: E, Atom: true, In: []gen.Slot{{T: E, Closure: -1}, {T: E, Closure: -1}}, Fmt: "[%s, %s]"},
	}
	return gen.NewGrammar(rules)
}

// c11PostfixGrammar: chains of slices, indexes, members and method calls (each bracket form starts afresh).
func c11PostfixGrammar() *gen.Grammar {
	E := gen.TAny
	rules := []*gen.Rule{gen.Lit("a", E, nil), gen.Lit("1", E, nil), gen.Lit("4", E, nil),
		gen.Slice("ft", E), gen.Slice("f", E), gen.Slice("t", E), gen.Slice("", E), gen.Index(E, E, E),
		gen.Prop(E, "p", E, false), gen.Method(E, "m", E, false, E), gen.Bin("+", E, E, E),
	}
	return gen.NewGrammar(rules)
}

// c11PunctGrammar: string literals that spell punctuation tokens, in every position where the parser probes for that token.
var c11PunctLits = []string{`":"`, `"]"`, `"#"`, `")"`, `"}"`, `","`, `"?"`, `"."`}

func c11PunctGrammar() *gen.Grammar {
	E := gen.TAny
	op := func(t gen.Ty) gen.Slot { return gen.Slot{T: t, Operand: true, Closure: -1} }
	rules := []*gen.Rule{gen.Lit("a", E, nil), {Op: "hash", Out: E, Atom: true, NeedElem: E, Fmt: "#"}}
	for _, l := range c11PunctLits {
		rules = append(rules, gen.Lit(l, E, nil))
	}
	rules = append(rules, gen.Bin("==", E, E, E), &gen.Rule{Op: "cond", Out: E, In: []gen.Slot{op(E), op(E), op(E)}, Fmt: "%s ? %s : %s"},
		gen.Index(E, E, E), gen.Slice("ft", E), gen.Slice("f", E), gen.Slice("t", E),
		gen.Method(E, "m", E, false, E), gen.Call("f", E, E), gen.Call("f", E, E, E),
		&gen.Rule{Op: "builtin", Arg: "all", Out: E, Atom: true, In: []gen.Slot{{T: E, Closure: -1}, {T: E, Closure: 0}}, Fmt: "all(%s, {%s})"},
		&gen.Rule{Op: "len", Out: E, Atom: true, In: []gen.Slot{{T: E, Closure: -1}}, Fmt: "len(%s)"},
		&gen.Rule{Op: "arr", Out: E, Atom: true, In: []gen.Slot{{T: E, Closure: -1}, {T: E, Closure: -1}}, Fmt: "[%s, %s]"},
		&gen.Rule{Op: "arr", Out: E, Atom: true, In: []gen.Slot{{T: E, Closure: -1}}, Fmt: "[%s]"},
		&gen.Rule{Op: "map", Arg: "k", Out: E, Atom: true, In: []gen.Slot{{T: E, Closure: -1}}, Fmt: "{k: %s}"},
	)
	return gen.NewGrammar(rules)
}

// c11 inside closures '#' has type TAny: gen.Elem(TAny) must be TAny for the builtin rule.

func c11Want(e *gen.Expr) string {
	k := func(i int) string { return c11Want(e.Kids[i]) }
	r := e.R
	switch r.Op {
	case "lit":
		switch r.Arg {
		case "a", "b":
			return "(id " + r.Arg + ")"
		case "1":
			return "(int 1)"
		case "4":
			return "(int 4)"
		case `"s"`:
			return `(str "s")`
		case "true":
			return "(bool true)"
		}
		if strings.HasPrefix(r.Arg, `"`) {
			return "(str " + r.Arg + ")"
		}
	case "hash":
		return "(ptr)"
	case "un":
		return "(un " + strconv.Quote(r.Arg) + " " + k(0) + ")"
	case "bin":
		if r.Arg == "matches" {
			re := "dyn"
			if e.Kids[1].R.Op == "lit" && e.Kids[1].R.Arg == `"s"` {
				re = "re"
			}
			return "(matches " + re + " " + k(0) + " " + k(1) + ")"
		}
		return "(bin " + strconv.Quote(r.Arg) + " " + k(0) + " " + k(1) + ")"
	case "cond":
		return "(cond " + k(0) + " " + k(1) + " " + k(2) + ")"
	case "prop":
		return "(prop " + k(0) + " p" + c11NS(e) + ")"
	case "prop?":
		return "(prop " + k(0) + " p nilsafe)"
	case "index":
		return "(idx " + k(0) + " " + k(1) + ")"
	case "slice":
		switch r.Arg {
		case "ft":
			return "(slice " + k(0) + " " + k(1) + " " + k(2) + ")"
		case "f":
			return "(slice " + k(0) + " " + k(1) + " _)"
		case "t":
			return "(slice " + k(0) + " _ " + k(1) + ")"
		}
		return "(slice " + k(0) + " _ _)"
	case "method":
		var a []string
		for i := 1; i < len(e.Kids); i++ {
			a = append(a, k(i))
		}
		return "(meth " + k(0) + " m" + c11NS(e) + " [" + strings.Join(a, " ") + "])"
	case "call":
		var a []string
		for i := range e.Kids {
			a = append(a, k(i))
		}
		return "(call f [" + strings.Join(a, " ") + "])"
	case "builtin":
		return "(builtin all " + k(0) + " (closure " + k(1) + "))"
	case "len":
		return "(builtin len " + k(0) + ")"
	case "arr":
		var a []string
		for i := range e.Kids {
			a = append(a, k(i))
		}
		return "(arr [" + strings.Join(a, " ") + "])"
	case "map":
		return `(map [(pair (str "k") ` + k(0) + ")])"
	}
	panic("c11Want: " + r.Op)
}

// c11NS: a '.' step is nil-safe when an earlier step of the same unparenthesised postfix chain used '?.'.
// Whether the chain is unparenthesised depends on the printing, so (i) only uses trees where the
// receiver of a plain step is not itself a nil-safe chain; see c11Usable.
func c11NS(e *gen.Expr) string { return "" }

func c11Usable(e *gen.Expr) bool {
	ok := true
	e.Walk(func(x *gen.Expr) {
		switch x.R.Op {
		case "prop", "method", "index", "slice":
			// receiver chain containing '?.' would make this step sticky nil-safe when printed without parentheses
			r := x.Kids[0]
			for {
				if r.R.Op == "prop?" {
					ok = false
					return
				}
				if r.R.Op == "prop" || r.R.Op == "method" || r.R.Op == "index" || r.R.Op == "slice" {
					r = r.Kids[0]
					continue
				}
				return
			}
		case "prop?":
			r := x.Kids[0]
			_ = r
		}
	})
	return ok
}

// c11Print prints e; kids in operand slots at a path contained in mask are parenthesised.
func c11Print(e *gen.Expr, path string, mask map[string]bool, sb *strings.Builder) {
	f := e.R.Fmt
	k := 0
	for i := 0; i < len(f); i++ {
		if f[i] == '%' && i+1 < len(f) && f[i+1] == 's' {
			kp := path + "." + strconv.Itoa(k)
			par := mask[kp]
			if par {
				sb.WriteByte('(')
			}
			c11Print(e.Kids[k], kp, mask, sb)
			if par {
				sb.WriteByte(')')
			}
			k++
			i++
			continue
		}
		sb.WriteByte(f[i])
	}
}

func c11OperandPaths(e *gen.Expr, path string, all bool, out *[]string) {
	for i, k := range e.Kids {
		kp := path + "." + strconv.Itoa(i)
		if e.R.In[i].Operand && (all || !k.R.Atom) || e.R.In[i].Postfix && k.R.Op == "lit" && k.R.Arg != "a" && k.R.Arg != "b" {
			*out = append(*out, kp)
		}
		c11OperandPaths(k, kp, all, out)
	}
}

func c11Text(e *gen.Expr, mask map[string]bool) string {
	var sb strings.Builder
	c11Print(e, "", mask, &sb)
	return sb.String()
}

// c11Relayout re-joins the tokens of a single-line source with the given whitespace.
func c11Relayout(src, ws string) (string, bool) {
	toks, err := lexer.Lex(file.NewSource(src))
	if err != nil {
		return "", false
	}
	runes := []rune(src)
	var parts []string
	for i, t := range toks {
		if t.Kind == lexer.EOF {
			break
		}
		end := len(runes)
		if i+1 < len(toks) && toks[i+1].Kind != lexer.EOF {
			end = toks[i+1].Column
		}
		text := strings.TrimSpace(string(runes[t.Column:end]))
		if t.Kind == lexer.Operator && t.Value == "not in" {
			text = "not" + ws + "in" // the whitespace between the two words of this operator is insignificant too
		}
		parts = append(parts, text)
	}
	return strings.Join(parts, ws), true
}

// c11Tight removes the blanks between tokens wherever the result lexes to the same tokens.
func c11Tight(src string) (string, bool) {
	toks, err := lexer.Lex(file.NewSource(src))
	if err != nil {
		return "", false
	}
	runes := []rune(src)
	var parts []string
	for i, t := range toks {
		if t.Kind == lexer.EOF {
			break
		}
		end := len(runes)
		if i+1 < len(toks) && toks[i+1].Kind != lexer.EOF {
			end = toks[i+1].Column
		}
		parts = append(parts, strings.TrimSpace(string(runes[t.Column:end])))
	}
	out := ""
	for i, p := range parts {
		if i > 0 {
			// a blank is dropped only next to a bracket, parenthesis, brace or comma: there the language definition
			// leaves no doubt that the neighbours are separate tokens (the rule does not consult the lexer under test)
			lc, rc := out[len(out)-1], p[0]
			if !strings.ContainsRune("()[]{},", rune(lc)) && !strings.ContainsRune("()[]{},", rune(rc)) {
				out += " "
			}
		}
		out += p
	}
	return out, out != src
}

// ---- (ii) token sequences ----

var c11Tokens = []string{"a", "1", `"s"`, `"("`, "matches", "1.5", "len", "not", "-", "*", "**", "and", "==", "in", "not in", "..", "?", ":", "(", ")", ".", "?.", "[", "]", ",", "{", "}", "#", "all", "f"}

func init() { checks["C11"] = c11 }

func c11(r *report.Run) {
	var trees, parses, seqs, lexRejected, accepted int64
	var mu sync.Mutex
	shapes := map[string]bool{}
	// (i)
	top := gen.NT{T: gen.TAny, Elem: gen.TNone}
	var order int64
	levels := 0
	type pass struct {
		g    *gen.Grammar
		maxN int
	}
	passes := []pass{{c11Grammar(false), 5}, {c11Grammar(true), 7}, {c11PunctGrammar(), 4}, {c11CallsGrammar(), 8}, {c11PostfixGrammar(), 7}}
	if r.Tier == "thorough" {
		passes = []pass{{c11Grammar(false), 6}, {c11Grammar(true), 8}, {c11PunctGrammar(), 5}, {c11CallsGrammar(), 9}, {c11PostfixGrammar(), 8}}
	}
	for _, ps := range passes {
		g, maxN := ps.g, ps.maxN
		for n := 1; n <= maxN; n++ {
			if r.OutOfTime() {
				r.Set("exhaustive", false)
				break
			}
			sp := g.Space(top, n)
			base := order
			par.For(int(sp.Total), func(i int) {
				e := sp.At(int64(i))
				if !c11Usable(e) {
					return
				}
				atomic.AddInt64(&trees, 1)
				want := c11Want(e)
				var safe, all []string
				c11OperandPaths(e, "", false, &safe)
				c11OperandPaths(e, "", true, &all)
				mask := map[string]bool{}
				for _, p := range safe {
					mask[p] = true
				}
				full := c11Text(e, mask)
				if s, perr, lerr := refparse.ParseString(full); lerr != nil || perr != nil || s != want {
					return // the harness cannot express this tree (reported in the count of skipped trees)
				}
				// greedy removal of parentheses, decided by the reference parser
				sort.Strings(safe)
				for _, p := range safe {
					delete(mask, p)
					if s, perr, lerr := refparse.ParseString(c11Text(e, mask)); lerr != nil || perr != nil || s != want {
						mask[p] = true
					}
				}
				min := c11Text(e, mask)
				fmask := map[string]bool{}
				for _, p := range all {
					fmask[p] = true
				}
				texts := map[string]string{"min": min, "full": full, "redundant": c11Text(e, fmask)}
				for _, ws := range []struct{ name, ws string }{{"tab", "\t"}, {"newline", "\n"}, {"mixed", " \n\t "}, {"cr", "\r"}, {"crlf", "\r\n"}, {"formfeed", "\f"}, {"vtab", "\v"}, {"nbsp", "\u00a0"}, {"nel", "\u0085"}, {"linesep", "\u2028"}, {"ideographic", "\u3000"}} {
					if r.Tier != "thorough" && e.Size() > 4 && (ws.name != "tab" && ws.name != "newline" && ws.name != "mixed") {
						continue // the rarer blank characters: every tree of <= 4 nodes in the quick tier, every tree in the thorough tier
					}
					if t, ok := c11Relayout(min, ws.ws); ok {
						texts["min+"+ws.name] = t
					}
				}
				// tight: every blank that is not needed to keep two tokens apart removed (validated by re-lexing)
				if t, ok := c11Tight(min); ok {
					texts["min+tight"] = t
				}
				for name, text := range texts {
					got, err := realParse(text)
					atomic.AddInt64(&parses, 1)
					kind := ""
					if err != nil {
						kind = "rejected"
						if strings.HasPrefix(err.Error(), "PANIC") {
							kind = "panic"
						}
					} else if got != want {
						kind = "different-tree"
					}
					if kind != "" {
						r.Report(report.Violation{Sub: "tree/" + name, Kind: kind, Witness: min, Order: base + int64(i),
							Detail: map[string]interface{}{"text": text, "expected_tree": want, "parsed_tree": got, "error": fmt.Sprint(err)}})
					}
				}
				mu.Lock()
				if len(shapes) < 200000 {
					shapes[min] = true
				}
				mu.Unlock()
			})
			order += sp.Total
			levels = n
			if n == maxN {
				r.Sample(map[string]interface{}{"tree": c11Want(sp.At(sp.Total / 3)), "safe_text": sp.At(sp.Total / 3).String()})
			}
		}
	}
	// (ii)
	maxLen := 4
	if r.Tier == "thorough" {
		maxLen = 5
	}
	nt := len(c11Tokens)
	lenDone := 0
	for L := 1; L <= maxLen; L++ {
		if r.OutOfTime() {
			r.Set("exhaustive", false)
			break
		}
		total := 1
		for i := 0; i < L; i++ {
			total *= nt
		}
		base := order
		par.For(total, func(i int) {
			parts := make([]string, L)
			x := i
			for k := L - 1; k >= 0; k-- {
				parts[k] = c11Tokens[x%nt]
				x /= nt
			}
			src := strings.Join(parts, " ")
			atomic.AddInt64(&seqs, 1)
			want, perr, lerr := refparse.ParseString(src)
			if lerr != nil {
				atomic.AddInt64(&lexRejected, 1)
				return
			}
			got, err := realParse(src)
			atomic.AddInt64(&parses, 1)
			kind := ""
			switch {
			case err != nil && strings.HasPrefix(err.Error(), "PANIC"):
				kind = "panic"
			case perr == nil && err != nil:
				kind = "rejects-valid"
			case perr != nil && err == nil:
				kind = "accepts-invalid"
			case perr == nil && got != want:
				kind = "different-tree"
			}
			if perr == nil {
				atomic.AddInt64(&accepted, 1)
			}
			if kind != "" {
				r.Report(report.Violation{Sub: "tokens", Kind: kind, Witness: src, Order: base + int64(i),
					Detail: map[string]interface{}{"reference_tree": want, "parsed_tree": got, "error": fmt.Sprint(err), "reference_error": fmt.Sprint(perr)}})
			}
		})
		order += int64(total)
		lenDone = L
	}
	// (i') operators written tight against number literals: the spaced text (validated by the reference parser) and the
	// text without blanks must give the same tree
	{
		lits := []string{"1", "1.5", "a", "1e3", ".5", "(a)", "a.b", "f(1)", "0x1F", "1_0", "2.5e-3", `"s"`, "#"}
		for _, l := range lits {
			for _, rr := range lits {
				for _, op := range []string{"..", "+", "-", "*", "**", "/", "%", "==", "<", ">=", "!=", "?", "in"} {
					spaced := l + " " + op + " " + rr
					tight := l + op + rr
					if op == "?" {
						spaced, tight = l+" ? "+rr+" : "+l, l+"?"+rr+":"+l
					}
					if op == "in" {
						tight = l + " in " + "[" + rr + "]"
						spaced = l + " in [ " + rr + " ]"
					}
					if strings.Contains(l, "#") || strings.Contains(rr, "#") {
						spaced, tight = "all(a, {"+spaced+"})", "all(a,{"+tight+"})"
					}
					want, perr, lerr := refparse.ParseString(spaced)
					if lerr != nil || perr != nil {
						continue
					}
					if (op == "-" && strings.HasPrefix(rr, "-")) || (op == "." || (op == ".." && (strings.HasSuffix(l, ".") || strings.HasPrefix(rr, ".")))) {
						continue
					}
					if op == "?" && strings.HasPrefix(rr, ".") {
						continue // "?." is one token (longest match)
					}
					if op == "+" || op == "-" {
						if strings.HasSuffix(l, "e") || strings.HasSuffix(l, "E") {
							continue
						}
					}
					gotS, errS := realParse(spaced)
					gotT, errT := realParse(tight)
					atomic.AddInt64(&parses, 2)
					order++
					switch {
					case errS != nil || gotS != want:
						r.Report(report.Violation{Sub: "tight", Kind: "spaced-form-differs-from-reference", Witness: spaced, Order: order, Detail: map[string]interface{}{"reference_tree": want, "parsed_tree": gotS, "error": fmt.Sprint(errS)}})
					case errT != nil:
						r.Report(report.Violation{Sub: "tight", Kind: "rejected-without-blanks", Witness: tight, Order: order, Detail: map[string]interface{}{"spaced": spaced, "error": fmt.Sprint(errT)}})
					case gotT != want:
						r.Report(report.Violation{Sub: "tight", Kind: "different-tree-without-blanks", Witness: tight, Order: order, Detail: map[string]interface{}{"spaced": spaced, "expected_tree": want, "parsed_tree": gotT}})
					}
				}
			}
		}
	}
	// (i'') map literals whose key starts with a parenthesis: the key is an expression, of which the parenthesised group
	// may be only the left part
	for i, src := range []string{"{(a): 1}", "{(a).b: 1}", "{(a)[0]: 1}", "{(a) + b: 1}", "{(a + b) * c: 1}", "{(a) ? b : c: 1}", "{(a).b: 1, c: 2}", "{(a)?.b: 1}", "{((a)): 1}", "{(a)(b): 1}", "{(a).m(1): 2}", "{(a) in b: 1}", "{(a) ?: b: 1}"} {
		want, perr, lerr := refparse.ParseString(src)
		if lerr != nil {
			continue
		}
		got, err := realParse(src)
		atomic.AddInt64(&parses, 1)
		kind := ""
		switch {
		case err != nil && strings.HasPrefix(err.Error(), "PANIC"):
			kind = "panic"
		case perr == nil && err != nil:
			kind = "rejects-valid"
		case perr != nil && err == nil:
			kind = "accepts-invalid"
		case perr == nil && got != want:
			kind = "different-tree"
		}
		if kind != "" {
			r.Report(report.Violation{Sub: "map-key", Kind: kind, Witness: src, Order: order + int64(i), Detail: map[string]interface{}{"reference_tree": want, "parsed_tree": got, "error": fmt.Sprint(err), "reference_error": fmt.Sprint(perr)}})
		}
	}
	// (iii) one token inserted, deleted or doubled at every token boundary of every small tree: accept/reject and
	// the tree must agree with the reference grammar
	var edits int64
	{
		g := c11Grammar(false)
		maxN := 3
		if r.Tier == "thorough" {
			maxN = 4
		}
		strays := []string{",", ")", "]", "}", ":", "a", "not", "?.", "(", "[", "..", "1", "-"}
		for n := 1; n <= maxN; n++ {
			if r.OutOfTime() {
				r.Set("exhaustive", false)
				break
			}
			sp := g.Space(top, n)
			base := order
			par.For(int(sp.Total), func(i int) {
				e := sp.At(int64(i))
				if !c11Usable(e) {
					return
				}
				src := e.String()
				toks, err := lexer.Lex(file.NewSource(src))
				if err != nil {
					return
				}
				rs := []rune(src)
				var cuts []int
				for _, t := range toks {
					if t.Kind == lexer.EOF {
						cuts = append(cuts, len(rs))
					} else {
						cuts = append(cuts, t.Column)
					}
				}
				var variants []string
				for k, c := range cuts {
					for _, s := range strays {
						variants = append(variants, string(rs[:c])+" "+s+" "+string(rs[c:]))
					}
					if k+1 < len(cuts) {
						variants = append(variants, string(rs[:c])+" "+string(rs[cuts[k+1]:]))                                     // token k deleted
						variants = append(variants, string(rs[:cuts[k+1]])+" "+string(rs[c:cuts[k+1]])+" "+string(rs[cuts[k+1]:])) // token k doubled
					}
				}
				for _, bad := range variants {
					want, perr, lerr := refparse.ParseString(bad)
					if lerr != nil {
						continue
					}
					got, err := realParse(bad)
					atomic.AddInt64(&parses, 1)
					atomic.AddInt64(&edits, 1)
					kind := ""
					switch {
					case err != nil && strings.HasPrefix(err.Error(), "PANIC"):
						kind = "panic"
					case perr == nil && err != nil:
						kind = "rejects-valid"
					case perr != nil && err == nil:
						kind = "accepts-invalid"
					case perr == nil && got != want:
						kind = "different-tree"
					}
					if kind != "" {
						r.Report(report.Violation{Sub: "token-edit", Kind: kind, Witness: bad, Order: base + int64(i),
							Detail: map[string]interface{}{"edited_from": src, "reference_tree": want, "parsed_tree": got, "error": fmt.Sprint(err), "reference_error": fmt.Sprint(perr)}})
					}
				}
			})
			order += sp.Total
		}
	}
	r.Set("single_token_edits", edits)
	r.Sample(map[string]interface{}{"token_sequence": "a ?. f ( 1 )", "reference": "accepts"})
	r.Set("trees", trees)
	r.Set("token_sequences", seqs)
	r.Set("token_sequences_accepted_by_reference", accepted)
	r.Set("token_sequences_rejected_by_lexer", lexRejected)
	r.Set("evaluations", parses)
	r.Set("states", trees+seqs)
	r.Set("transitions", parses)
	r.Set("traces_validated_against_impl", parses)
	r.Set("distinct_nontrivial", int64(len(shapes))+accepted)
	r.Set("tree_node_budget_completed", levels)
	r.Set("token_length_completed", lenDone)
	if _, ok := r.Cov["exhaustive"]; !ok {
		r.Set("exhaustive", true)
	}
	r.Set("rule", "(i) every tree of the syntactic grammar (5 leaves, 3 unary, 23 binary operators, conditional, 7 postfix forms, calls, builtin with closure, len, arrays, map) with <= n nodes, printed min (greedy parenthesis removal decided by the reference parser), full, redundant and in tab/newline/mixed layouts; (ii) every sequence of <= L tokens over a 26-token alphabet; distinct_nontrivial = distinct minimal texts + sequences the reference accepts")
	r.Assume("reference grammar = DESIGN.md Appendix B with its own binding-power table; the real lexer supplies the tokens (the lexer is checked by C12)")
	r.Assume("trees where a plain '.'/'[' step follows a '?.' step of the same chain are excluded from (i): their nil-safety depends on parenthesisation; (ii) covers them")
}
