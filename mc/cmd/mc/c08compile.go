package main

import (
	"fmt"
	"os"
	"os/exec"
	"strings"

	"github.com/antonmedv/expr"
	"github.com/antonmedv/expr/ast"

	"verif/mc/report"
	"verif/mc/sched"
)

// Concurrent Compile calls under the controlled scheduler: a thread is one expr.Compile call
// whose user visitor (and ConstExpr function) yields to the explorer at every node it visits,
// so the explorer decides how the phases of several compilations interleave. Every call must
// produce the program it produces alone.

type c08Yield struct {
	grant, yielded chan struct{}
}

func (y *c08Yield) pause() {
	y.yielded <- struct{}{}
	<-y.grant
}
func (y *c08Yield) Enter(*ast.Node) { y.pause() }
func (y *c08Yield) Exit(*ast.Node)  { y.pause() }

// c08Current is the yield handle of the Compile thread the explorer is stepping right now (nil outside a step).
// In the overlay build every method entry of the compile pipeline calls c08PointHook, which parks the running
// thread there: the explorer then interleaves concurrent Compile calls at method granularity through every
// phase (check, patch, optimize, emit), not only at the user visitor's callbacks.
var (
	c08Current         *c08Yield
	c08FinePoints      bool // park at injected points (fine scenarios only)
	c08PointsAvailable bool
	c08PointsHit       int64
)

func c08PointHook(id string) {
	if y := c08Current; y != nil && c08FinePoints {
		c08PointsHit++
		y.pause()
	}
}

// c08BumpOnce adds 1 to every integer literal: applied twice it gives another program.
type c08BumpOnce struct{}

func (c08BumpOnce) Enter(*ast.Node) {}
func (c08BumpOnce) Exit(n *ast.Node) {
	if i, ok := (*n).(*ast.IntegerNode); ok {
		ast.Patch(n, &ast.IntegerNode{Value: i.Value + 1})
	}
}

// c08FinePair: the pairs of Compile jobs (indices into c08CompileJobs) explored with two preemptions at method granularity
// in the thorough tier: both operator tables on one operator, the two folded empty ranges, the two failing folds, the
// shared option slice with itself, the constant call with and without ConstExpr, lenient and strict undefined names.
var c08FinePair = map[[2]int]bool{{0, 7}: true, {1, 2}: true, {4, 5}: true, {6, 6}: true, {3, 9}: true, {10, 12}: true, {0, 0}: true, {1, 1}: true}

// c08SharedLists: option slices handed to every Compile call as they are; entry 1 of each is nil and must stay nil.
var c08SharedLists [][]expr.Option

type c08CompileEnv struct {
	S, Tag string
	I      int
	A      []int
	y      *c08Yield
}

func (e c08CompileEnv) AddS(a, b string) string { return a + "+" + b }
func (e c08CompileEnv) Twice(i int) int         { return 2 * i }
func (e c08CompileEnv) AddI(a, b int) int       { return a + b + 100 }

type c08CompileThread struct {
	src      string
	opts     func(y *c08Yield) []expr.Option
	y        *c08Yield
	started  bool
	done     bool
	finished chan string
	result   string
}

func (t *c08CompileThread) Enabled() bool { return !t.done }

func (t *c08CompileThread) Step() {
	if !t.started {
		t.started = true
		go func() {
			<-t.y.grant
			key := "error"
			func() {
				defer func() {
					if r := recover(); r != nil {
						key = fmt.Sprintf("PANIC %v", r)
					}
				}()
				p, err := expr.Compile(t.src, t.opts(t.y)...)
				if err == nil {
					key = progKey(p)
				} else {
					key = "error " + err.Error()
				}
			}()
			t.finished <- key
		}()
	}
	c08Current = t.y
	t.y.grant <- struct{}{}
	select {
	case <-t.y.yielded:
	case r := <-t.finished:
		t.done, t.result = true, r
	}
	c08Current = nil
}

type c08CompileExec struct{ threads []*c08CompileThread }

func (x *c08CompileExec) Threads() []sched.Thread {
	out := make([]sched.Thread, len(x.threads))
	for i, t := range x.threads {
		out[i] = t
	}
	return out
}
func (x *c08CompileExec) Finish() {}

type c08CompileJob struct {
	src  string
	opts func(y *c08Yield) []expr.Option
}

func c08CompileJobs() []c08CompileJob {
	// environment values and option values built once and shared by all threads of all schedules
	shared := &c08CompileEnv{S: "s", Tag: "t", I: 1, A: []int{1, 2}}
	sharedEnvOpt := expr.Env(shared)
	mapEnv := map[string]interface{}{"S": "a", "I": 1, "A": []int{1, 2}}
	sharedMapOpt := expr.Env(mapEnv)
	undef := expr.AllowUndefinedVariables()
	opS, opSI := expr.Operator("+", "AddS"), expr.Operator("+", "AddS", "AddI") // two tables for one operator, overlapping
	sharedListWithNil := []expr.Option{sharedEnvOpt, nil, expr.Patch(c08BumpOnce{}), undef}
	c08SharedLists = append(c08SharedLists, sharedListWithNil)
	return []c08CompileJob{
		{`S + Tag + (I + 1 > 0 ? "x" : "y")`, func(y *c08Yield) []expr.Option {
			return []expr.Option{sharedEnvOpt, opSI, opS, expr.Patch(y)}
		}},
		{`[len(5..1), I, len(3..2)]`, func(y *c08Yield) []expr.Option {
			return []expr.Option{sharedEnvOpt, expr.Patch(y)}
		}},
		{`I + len(S) + len(7..6)`, func(y *c08Yield) []expr.Option { // the same folded constant at another position
			return []expr.Option{sharedEnvOpt, expr.Patch(y)}
		}},
		{`Twice(3) + I`, func(y *c08Yield) []expr.Option { // a constant call WITHOUT the ConstExpr option another job uses
			return []expr.Option{sharedEnvOpt, expr.Patch(y)}
		}},
		{`1 % 0 + I`, func(y *c08Yield) []expr.Option { // rejected by the constant folder: the error (position, snippet) is the result
			return []expr.Option{sharedEnvOpt, expr.Patch(y)}
		}},
		{"I +\n   7 / (3 - 3)", func(y *c08Yield) []expr.Option {
			return []expr.Option{sharedEnvOpt, expr.Patch(y)}
		}},
		{`I + len(S) + 40`, func(y *c08Yield) []expr.Option { // ONE option slice shared by every call, with a nil entry in the middle
			return sharedListWithNil
		}},
		{`S + Tag + "x"`, func(y *c08Yield) []expr.Option {
			return []expr.Option{sharedEnvOpt, opS, expr.Patch(y)} // the same option VALUE as in the job above
		}},
		{`Twice(I) in 1..9 and S matches "^s"`, func(y *c08Yield) []expr.Option {
			return []expr.Option{sharedEnvOpt, expr.Patch(y)}
		}},
		{`len(filter(A, {# > I})) + Twice(2)`, func(y *c08Yield) []expr.Option {
			return []expr.Option{sharedEnvOpt, expr.ConstExpr("Twice"), expr.Patch(y)}
		}},
		{`missing + len(S) + I`, func(y *c08Yield) []expr.Option {
			return []expr.Option{sharedMapOpt, undef, expr.Patch(y)}
		}},
		{`I in [1, 2, 3] ? S : S + "b"`, func(y *c08Yield) []expr.Option {
			return []expr.Option{sharedMapOpt, expr.Patch(y)}
		}},
		{`missing == nil or I > 0`, func(y *c08Yield) []expr.Option { // strict: must stay rejected whatever ran before
			return []expr.Option{sharedMapOpt, expr.Patch(y)}
		}},
	}
}

// c08CompileScenarios explores the interleavings of 2 and 3 concurrent Compile calls.
func c08CompileScenarios(r *report.Run, order *int64) (schedules, steps int64, capped bool) {
	jobs := c08CompileJobs()
	var fineSchedules int64
	// solo keys: each job compiled alone through the same yielding machinery, each with option values of its own
	solo := make([]string, len(jobs))
	for i := range jobs {
		jobs := c08CompileJobs()
		x := &c08CompileExec{threads: []*c08CompileThread{{src: jobs[i].src, opts: jobs[i].opts, y: &c08Yield{make(chan struct{}), make(chan struct{})}, finished: make(chan string, 1)}}}
		for x.threads[0].Enabled() {
			x.threads[0].Step()
		}
		solo[i] = x.threads[0].result
	}
	var combos [][]int
	for a := 0; a < len(jobs); a++ {
		for b := a; b < len(jobs); b++ {
			combos = append(combos, []int{a, b})
		}
	}
	combos = append(combos, []int{7, 10, 11}, []int{9, 9, 10}, []int{8, 10, 12}, []int{10, 12, 12}, []int{0, 0, 7}, []int{1, 2, 8}, []int{4, 5, 5}, []int{6, 6, 10}, []int{3, 9, 9})
	type pass struct {
		combos [][]int
		fine   bool
	}
	passes := []pass{{combos, false}}
	if c08PointsAvailable {
		// fine-grained pass: threads also park at every method entry of the compile pipeline (overlay build)
		var fine [][]int
		for a := 0; a < len(jobs); a++ {
			for b := a; b < len(jobs); b++ {
				fine = append(fine, []int{a, b})
			}
		}
		passes = append(passes, pass{fine, true})
	}
	for _, ps := range passes {
		c08FinePoints = ps.fine
		for _, combo := range ps.combos {
			bound := 2
			if len(combo) == 3 {
				bound = 1
			}
			if r.Tier == "thorough" {
				bound++
			}
			if ps.fine {
				bound = 1 // about 10x more scheduling points per thread: every single preemption (thorough: two, on the pairs that share option values)
				if r.Tier == "thorough" && c08FinePair[[2]int{combo[0], combo[1]}] {
					bound = 2 // two preemptions for the pairs of jobs that share option values or package-level constants
				}
			}
			combo := combo
			mk := func() sched.Execution {
				x := &c08CompileExec{}
				for _, j := range combo {
					x.threads = append(x.threads, &c08CompileThread{src: jobs[j].src, opts: jobs[j].opts, y: &c08Yield{make(chan struct{}), make(chan struct{})}, finished: make(chan string, 1)})
				}
				return x
			}
			ex := &sched.Explorer{New: mk, Bound: bound, Stop: r.OutOfTime}
			ex.Check = func(xe sched.Execution, schedule []int) {
				x := xe.(*c08CompileExec)
				*order++
				for ti, t := range x.threads {
					if t.result != solo[combo[ti]] {
						r.Report(report.Violation{Sub: "scheduler-compile", Kind: "program-differs-from-solo-compile", Witness: fmt.Sprintf("%q", jobs[combo[ti]].src), Order: *order,
							Detail: map[string]interface{}{"schedule": fmt.Sprint(schedule), "concurrent_with": fmt.Sprint(combo), "solo": trunc(solo[combo[ti]]), "observed": trunc(t.result)}})
					}
				}
			}
			ex.Explore()
			schedules += ex.Schedules
			steps += ex.Steps
			capped = capped || ex.Capped
			if ps.fine {
				fineSchedules += ex.Schedules
			}
		}
	}
	c08FinePoints = false
	for _, l := range c08SharedLists {
		if len(l) > 1 && l[1] != nil {
			r.Report(report.Violation{Sub: "scheduler-compile", Kind: "shared-option-slice-modified", Witness: "Compile wrote into the option slice of its caller", Order: *order})
			break
		}
	}
	r.Set("compile_schedules_at_method_granularity", fineSchedules)
	r.Set("compile_scheduling_points_hit", c08PointsHit)
	return
}

func init() {
	checks["c08-globals-debug"] = func(r *report.Run) {
		if globalsSnap == nil && os.Getenv("VERIF_IN_OVERLAY") == "" {
			bin, _, cleanup, err := buildVerifBinary()
			if err != nil {
				fmt.Println(err)
				return
			}
			cmd := exec.Command(bin, os.Args[1:]...)
			cmd.Env = append(os.Environ(), "VERIF_IN_OVERLAY=1")
			cmd.Stdout, cmd.Stderr = os.Stdout, os.Stderr
			cmd.Run()
			cleanup()
			return
		}
		a := globalsSnap()
		expr.Compile("[len(5..1), 1]")
		b := globalsSnap()
		fmt.Println("changed:", a != b, c08Diff(a, b))
		i := strings.Index(b, "emptyRange")
		if i >= 0 {
			fmt.Println(b[i:min(len(b), i+300)])
		}
	}
}
