package main

import (
	"fmt"
	"strings"
	"sync/atomic"

	"github.com/antonmedv/expr"
	"github.com/antonmedv/expr/file"
	"github.com/antonmedv/expr/parser/lexer"

	"verif/mc/gen"
	"verif/mc/henv"
	"verif/mc/lib"
	"verif/mc/ref"
	"verif/mc/refparse"
	"verif/mc/report"
)

// C13: errors point at the offending source position. (A) every run-time failure that
// the reference evaluator locates at a node must be reported at that node's location
// token; (B) single injected compile-time faults (unknown name, one mismatching
// operand, wrong unary operand) must be reported at the faulty node; (C) one stray or
// deleted token: the parser must stop where the reference grammar stops; (D) every
// reported location lies inside the source and the snippet is the named line.
// Layouts: single line, one token group per line, non-ASCII prefix.

type c13Layout struct {
	name     string
	multi    bool
	prefix   bool
	sameLine bool   // the non-ASCII prefix sits on the same line as the expression
	chains   bool   // left operands that are binary operators of at least the same precedence are not parenthesised
	ws       string // "crlf": line breaks are CR LF; "cr"/"tab"/"nbsp": every blank between tokens is that character
}

var c13Layouts = []c13Layout{{"line", false, false, false, false, ""}, {"multiline", true, false, false, false, ""}, {"unicode-prefix", false, true, false, false, ""}, {"unicode-prefix-multiline", true, true, false, false, ""},
	{"unicode-prefix-same-line", false, true, true, false, ""}, {"chains", false, false, false, true, ""}, {"chains-multiline", true, false, false, true, ""},
	{"crlf", true, false, false, false, "crlf"}, {"cr-blanks", false, false, false, false, "cr"}, {"tab-blanks", false, false, false, false, "tab"}, {"nbsp-blanks-multiline", true, false, false, false, "nbsp"}, {"leading-blank-lines", false, false, false, false, "lead"}, {"leading-blank-lines-multiline", true, false, false, false, "lead"}}

// c13Blanks replaces the blanks between tokens (not inside string literals); every replacement is one rune
// that does not end a line, so no expected location moves.
func c13Blanks(text, ws string) string {
	if ws == "crlf" {
		return strings.Replace(text, "\n", "\r\n", -1)
	}
	rep := map[string]rune{"cr": '\r', "tab": '\t', "nbsp": '\u00a0'}[ws]
	out := []rune(text)
	var quote rune
	for i := 0; i < len(out); i++ {
		c := out[i]
		switch {
		case quote != 0:
			if c == '\\' {
				i++
			} else if c == quote {
				quote = 0
			}
		case c == '"' || c == '\'':
			quote = c
		case c == ' ':
			out[i] = rep
		}
	}
	return string(out)
}

const c13PrefixSameLine = "[\"zürich😀\", "

var c13Prec = map[string]int{"or": 10, "||": 10, "and": 15, "&&": 15, "==": 20, "!=": 20, "<": 20, ">": 20, ">=": 20, "<=": 20, "not in": 20, "in": 20, "matches": 20, "contains": 20, "startsWith": 20, "endsWith": 20, "..": 25, "+": 30, "-": 30, "*": 60, "/": 60, "%": 60}

func c13NoParen(parent, kid *gen.Expr, slot int) bool {
	if parent.R.Op != "bin" || kid.R.Op != "bin" || slot != 0 {
		return false
	}
	pp, ok1 := c13Prec[parent.R.Arg]
	kp, ok2 := c13Prec[kid.R.Arg]
	return ok1 && ok2 && kp >= pp
}

const c13Prefix = "[\"é😀ñ\",\n"
const c13Suffix = "][1]"

// layoutText returns the laid out source and the expected location of every path.
func c13Text(e *gen.Expr, l c13Layout) (string, map[string][2]int) {
	text, anchors := e.PrintAnchors(l.multi)
	if l.chains {
		t2, a2 := e.PrintAnchorsWith(l.multi, c13NoParen)
		// use the text with fewer parentheses only if the reference parser reads it as the same tree
		s1, e1, l1 := refparse.ParseString(text)
		s2, e2, l2 := refparse.ParseString(t2)
		if t2 != text && e1 == nil && e2 == nil && l1 == nil && l2 == nil && s1 == s2 {
			text, anchors = t2, a2
		} else {
			return text, map[string][2]int{} // nothing new to check in this layout
		}
	}
	if l.sameLine {
		out := map[string][2]int{}
		shift := len([]rune(c13PrefixSameLine))
		for k, a := range anchors {
			if a[0] == 1 {
				out[k] = [2]int{1, a[1] + shift}
			} else {
				out[k] = a
			}
		}
		return c13PrefixSameLine + text + c13Suffix, out
	}
	if l.ws == "lead" {
		// the source starts with blank lines and an indented first line: positions are those of the caller's text
		out := map[string][2]int{}
		for k, a := range anchors {
			col := a[1]
			if a[0] == 1 {
				col += 3
			}
			out[k] = [2]int{a[0] + 2, col}
		}
		return "\n \t\n   " + text + "\n\n", out
	}
	if l.ws != "" {
		return c13Blanks(text, l.ws), anchors
	}
	if !l.prefix {
		return text, anchors
	}
	out := map[string][2]int{}
	for k, a := range anchors {
		out[k] = [2]int{a[0] + 1, a[1]} // the prefix ends with a line break: lines shift by one, columns stay
	}
	return c13Prefix + text + c13Suffix, out
}

func fileErr(err error) *file.Error {
	if fe, ok := err.(*file.Error); ok {
		return fe
	}
	return nil
}

// c13Sanity checks (D) for one error.
func c13Sanity(src string, fe *file.Error) string {
	if fe == nil || fe.Location.Empty() {
		return ""
	}
	lines := strings.Split(src, "\n")
	if fe.Line < 1 || fe.Line > len(lines) {
		return fmt.Sprintf("line %d outside the source (%d lines)", fe.Line, len(lines))
	}
	ln := []rune(lines[fe.Line-1])
	if fe.Column < 0 || fe.Column > len(ln) {
		return fmt.Sprintf("column %d outside line %d (%d runes)", fe.Column, fe.Line, len(ln))
	}
	if fe.Snippet != "" {
		parts := strings.Split(fe.Snippet, "\n | ")
		if len(parts) < 2 || parts[1] != strings.Replace(lines[fe.Line-1], "\t", " ", -1) {
			return fmt.Sprintf("snippet %q is not source line %d %q", fe.Snippet, fe.Line, lines[fe.Line-1])
		}
	}
	return ""
}

func subAt(e *gen.Expr, path string) *gen.Expr {
	for _, c := range strings.Split(strings.TrimPrefix(path, "."), ".") {
		if c == "" {
			continue
		}
		var i int
		fmt.Sscanf(c, "%d", &i)
		e = e.Kids[i]
	}
	return e
}

func allPaths(e *gen.Expr, path string, out *[]string) {
	*out = append(*out, path)
	for i, k := range e.Kids {
		allPaths(k, fmt.Sprintf("%s.%d", path, i), out)
	}
}

func replacePath(e *gen.Expr, path string, n *gen.Expr) *gen.Expr {
	if path == "" {
		return n
	}
	rest := strings.TrimPrefix(path, ".")
	var i int
	var tail string
	if j := strings.Index(rest, "."); j >= 0 {
		fmt.Sscanf(rest[:j], "%d", &i)
		tail = rest[j:]
	} else {
		fmt.Sscanf(rest, "%d", &i)
	}
	c := &gen.Expr{R: e.R, Kids: append([]*gen.Expr{}, e.Kids...)}
	c.Kids[i] = replacePath(e.Kids[i], tail, n)
	return c
}

func init() { checks["C13"] = c13 }

func c13(r *report.Run) {
	slices := []*slice{sliceScalar(), sliceAccess(), sliceLoops()}
	budget := map[string]map[string]int{"quick": {"scalar": 4, "access": 4, "loops": 5}, "thorough": {"scalar": 5, "access": 5, "loops": 6}}
	for _, sl := range slices {
		sl.maxN = map[string]int{r.Tier: budget[r.Tier][sl.name]}
	}
	var runtimeFaults, compileFaults, syntaxFaults, sane int64
	modes := []lib.Mode{{Env: "struct", Opt: true}, {Env: "struct", Opt: false}, {Env: "noenv", Opt: true}}
	wrongLit := func(t gen.Ty) *gen.Expr {
		if t == gen.TStr {
			return &gen.Expr{R: gen.Lit("1", gen.TInt, 1)}
		}
		return &gen.Expr{R: gen.Lit(`"w"`, gen.TStr, "w")}
	}
	runSlices(r, slices, func(sl *slice, e *gen.Expr, order int64) (int64, []string) {
		var runs int64
		var outs []string
		vals := henv.Valuations(gen.Vars(e))
		names := gen.Names(e)
		// (A) run-time failures located by the reference evaluator
		type located struct {
			v    henv.Val
			path string
		}
		var locs []located
		for _, v := range vals {
			res := ref.Eval(e, henv.Make(v))
			if res.Failed {
				locs = append(locs, located{v, res.FailPath})
			}
		}
		for _, l := range c13Layouts {
			src, anchors := c13Text(e, l)
			if len(locs) > 0 {
				for _, m := range modes {
					p, err := lib.Compile(src, m)
					if err != nil {
						continue
					}
					for _, lc := range locs {
						want, ok := anchors[lc.path]
						if !ok {
							continue // node kinds without a location convention
						}
						_, err := lib.Run(p, m.RunEnv(henv.Make(lc.v), names))
						runs++
						atomic.AddInt64(&runtimeFaults, 1)
						fe := fileErr(err)
						if err == nil || fe == nil {
							continue // whether it fails is C01's business
						}
						node := subAt(e, lc.path)
						if s := c13Sanity(src, fe); s != "" {
							r.Report(report.Violation{Sub: "runtime/" + l.name, Kind: "location-outside-source", Witness: node.R.Op + " " + node.R.Arg, Order: order,
								Detail: map[string]interface{}{"source": src, "mode": m.String(), "what": s}})
							continue
						}
						atomic.AddInt64(&sane, 1)
						if fe.Line != want[0] || fe.Column != want[1] {
							r.Report(report.Violation{Sub: "runtime/" + l.name + "@" + m.String(), Kind: "wrong-position", Witness: "failing " + node.R.Op + " " + node.R.Arg, Order: order,
								Detail: map[string]interface{}{"source": src, "env": lc.v.Describe(), "failing_subexpression": node.String(),
									"expected": fmt.Sprintf("%d:%d", want[0], want[1]), "reported": fmt.Sprintf("%d:%d", fe.Line, fe.Column), "message": fe.Message}})
						}
					}
				}
			}
		}
		// (B) injected compile-time faults
		var paths []string
		allPaths(e, "", &paths)
		nilsafe := false
		e.Walk(func(y *gen.Expr) {
			if y.R.Op == "prop?" || y.R.Op == "method?" {
				nilsafe = true
			}
		})
		for _, pth := range paths {
			x := subAt(e, pth)
			if nilsafe && (x.R.Op == "var" || x.R.Op == "prop") {
				continue // an unknown name or field inside a nil-safe chain is not a fault
			}
			var mutants []*gen.Expr
			var kinds []string
			var faultAt map[int]string // mutant index -> path of the node the error belongs to (default: the mutated construct)
			switch {
			case x.R.Op == "var":
				mutants = append(mutants, replacePath(e, pth, &gen.Expr{R: gen.Var("Zz", x.R.Out)}))
				kinds = append(kinds, "unknown-name")
			case x.R.Op == "call":
				c := *x.R
				c.Arg = "Zzf"
				c.Fmt = strings.Replace(c.Fmt, x.R.Arg+"(", "Zzf(", 1)
				mutants = append(mutants, replacePath(e, pth, &gen.Expr{R: &c, Kids: x.Kids}))
				kinds = append(kinds, "unknown-function")
			case x.R.Op == "bin" && (x.R.In[1].T == gen.TInt || x.R.In[1].T == gen.TFloat || x.R.In[1].T == gen.TStr || x.R.In[1].T == gen.TBool) && x.R.Arg != "in" && x.R.Arg != "not in":
				// "1" for a string operand, "w" for the others: the operator's types mismatch (== with a
				// literal on one side and a member of another kind on the other is a mismatch too)
				lt := x.R.In[0].T
				if lt == gen.TInt || lt == gen.TFloat || lt == gen.TStr || lt == gen.TBool {
					mutants = append(mutants, replacePath(e, pth+".1", wrongLit(lt)))
					kinds = append(kinds, "operand-mismatch")
				}
			case x.R.Op == "slice" && len(x.Kids) > 1:
				// every bound replaced by a string literal: the fault is the bound, not the slice
				for bi := 1; bi < len(x.Kids); bi++ {
					mutants = append(mutants, replacePath(e, fmt.Sprintf("%s.%d", pth, bi), wrongLit(gen.TInt)))
					kinds = append(kinds, fmt.Sprintf("slice-bound-mismatch@%d", bi))
					if faultAt == nil {
						faultAt = map[int]string{}
					}
					faultAt[len(mutants)-1] = fmt.Sprintf("%s.%d", pth, bi)
				}
			case x.R.Op == "un":
				mutants = append(mutants, replacePath(e, pth+".0", wrongLit(x.R.In[0].T)))
				kinds = append(kinds, "unary-operand-mismatch")
			case x.R.Op == "prop" && x.R.In[0].T == gen.TObj:
				c := *x.R
				c.Fmt = strings.Replace(c.Fmt, "."+x.R.Arg, ".Zzp", 1)
				mutants = append(mutants, replacePath(e, pth, &gen.Expr{R: &c, Kids: x.Kids}))
				kinds = append(kinds, "unknown-field")
			}
			for mi, mu := range mutants {
				for _, l := range c13Layouts {
					src, anchors := c13Text(mu, l)
					want, ok := anchors[pth]
					if fp, has := faultAt[mi]; has {
						want, ok = anchors[fp]
					}
					if !ok {
						continue
					}
					if kinds[mi] == "unknown-name" {
						// run-time variant: without Env the name is accepted and the fetch fails at run time
						m := lib.Mode{Env: "noenv", Opt: true}
						if p, err := lib.Compile(src, m); err == nil {
							for _, v := range vals {
								if res := ref.Eval(mu, henv.Make(v)); !res.Failed || res.FailPath != pth {
									continue
								}
								_, err := lib.Run(p, m.RunEnv(henv.Make(v), names))
								runs++
								atomic.AddInt64(&runtimeFaults, 1)
								if fe := fileErr(err); fe != nil && (fe.Line != want[0] || fe.Column != want[1]) {
									r.Report(report.Violation{Sub: "runtime/" + l.name + "@" + m.String(), Kind: "wrong-position", Witness: "failing fetch of a missing member", Order: order,
										Detail: map[string]interface{}{"source": src, "env": v.Describe(), "expected": fmt.Sprintf("%d:%d", want[0], want[1]), "reported": fmt.Sprintf("%d:%d", fe.Line, fe.Column), "message": fe.Message}})
								}
								break
							}
						}
					}
					for _, opt := range []bool{true, false} {
						_, err := lib.Compile(src, lib.Mode{Env: "struct", Opt: opt})
						atomic.AddInt64(&compileFaults, 1)
						if err == nil {
							continue // accepting an ill-typed program is C03's business
						}
						fe := fileErr(err)
						if fe == nil {
							r.Report(report.Violation{Sub: "compile/" + l.name, Kind: "no-position", Witness: kinds[mi] + " under " + x.R.Op + " " + x.R.Arg, Order: order,
								Detail: map[string]interface{}{"source": src, "error": err.Error()}})
							continue
						}
						if s := c13Sanity(src, fe); s != "" {
							r.Report(report.Violation{Sub: "compile/" + l.name, Kind: "location-outside-source", Witness: kinds[mi], Order: order,
								Detail: map[string]interface{}{"source": src, "what": s}})
							continue
						}
						atomic.AddInt64(&sane, 1)
						if fe.Line != want[0] || fe.Column != want[1] {
							r.Report(report.Violation{Sub: "compile/" + l.name, Kind: "wrong-position", Witness: kinds[mi] + " at " + x.R.Op + " " + x.R.Arg, Order: order,
								Detail: map[string]interface{}{"source": src, "expected": fmt.Sprintf("%d:%d", want[0], want[1]), "reported": fmt.Sprintf("%d:%d", fe.Line, fe.Column), "message": fe.Message}})
						}
					}
				}
			}
		}
		// (C) one stray / deleted token
		if e.Size() <= 4 {
			for _, l := range c13Layouts[:5] {
				if l.multi && l.prefix {
					continue
				}
				src, _ := c13Text(e, l)
				toks, err := lexer.Lex(file.NewSource(src))
				if err != nil {
					continue
				}
				offs := lineOffsets(src)
				rs := []rune(src)
				for k := 0; k < len(toks); k++ {
					start := len(rs)
					if toks[k].Line < 1 || toks[k].Line > len(offs) || (k+1 < len(toks) && (toks[k+1].Line < 1 || toks[k+1].Line > len(offs))) {
						r.Report(report.Violation{Sub: "syntax/" + l.name, Kind: "token-location-outside-source", Witness: toks[k].String(), Order: order,
							Detail: map[string]interface{}{"source": src, "token_line": toks[k].Line, "lines": len(offs)}})
						break
					}
					if toks[k].Kind != lexer.EOF {
						start = offs[toks[k].Line-1] + toks[k].Column
					}
					if start > len(rs) {
						start = len(rs)
					}
					var variants []string
					for _, stray := range []string{")", "]", ",", "a"} {
						variants = append(variants, string(rs[:start])+stray+" "+string(rs[start:]))
					}
					if toks[k].Kind != lexer.EOF && k+1 < len(toks) {
						end := len(rs)
						if toks[k+1].Kind != lexer.EOF {
							end = offs[toks[k+1].Line-1] + toks[k+1].Column
						}
						if end > len(rs) || end < start {
							end = len(rs)
						}
						variants = append(variants, string(rs[:start])+string(rs[end:]))
					}
					for vi, bad := range variants {
						_, perr, lerr := refparse.ParseString(bad)
						if lerr != nil || perr == nil {
							continue
						}
						atomic.AddInt64(&syntaxFaults, 1)
						_, err := realParse(bad)
						if err == nil {
							continue // C11's business
						}
						fe := fileErr(err)
						kind := "stray-token"
						if vi == len(variants)-1 && len(variants) == 5 {
							kind = "deleted-token"
						}
						if fe == nil {
							r.Report(report.Violation{Sub: "syntax/" + l.name, Kind: "no-position", Witness: kind, Order: order, Detail: map[string]interface{}{"source": bad, "error": err.Error()}})
							continue
						}
						if s := c13Sanity(bad, fe); s != "" {
							r.Report(report.Violation{Sub: "syntax/" + l.name, Kind: "location-outside-source", Witness: kind, Order: order, Detail: map[string]interface{}{"source": bad, "what": s}})
							continue
						}
						atomic.AddInt64(&sane, 1)
						wantLine, wantCol := perr.Loc.Line, perr.Loc.Column
						if btoks, lerr2 := lexer.Lex(file.NewSource(bad)); lerr2 == nil && perr.Tok == len(btoks)-1 {
							// the reference stops at the end of input: that position is the last rune of the text
							// (computed here, not taken from the lexer under test)
							if brs := []rune(bad); len(brs) > 0 {
								wantLine, wantCol = 1, 0
								for _, ch := range brs[:len(brs)-1] {
									if ch == '\n' {
										wantLine, wantCol = wantLine+1, 0
									} else {
										wantCol++
									}
								}
							}
						}
						if fe.Line != wantLine || fe.Column != wantCol {
							r.Report(report.Violation{Sub: "syntax/" + l.name, Kind: "wrong-position", Witness: kind + " near " + toks[k].String(), Order: order,
								Detail: map[string]interface{}{"source": bad, "expected": fmt.Sprintf("%d:%d", wantLine, wantCol), "reported": fmt.Sprintf("%d:%d", fe.Line, fe.Column), "message": fe.Message}})
						}
					}
				}
			}
		}
		return runs, outs
	})
	// (E) a failing overloaded operator: the failure belongs to the operator occurrence that was rewritten into the call
	for i, src := range []string{"I - 0", "(I - 1) - 0", "Id(I - 0)", "[1, I - 0]", "map(A, {# - 0})", "B ? I - 0 : 1", `"é😀" + S == "x" or I - 0 > 1`, "I - 1 +\n  (J - 0)",
		"[\"zürich😀\",\n I - 1,\n\tJ - 0]", "{a: I - 0}", "A[I - 0]", "not (I - 0 > 1)", "I - 0 in A", "len(A[I - 0:])", "I - 1 - 0", "-(I - 0)", "Pack(I - 0)", "O.Plus(I - 0)", "count(A, {# - 0 > 1})"} {
		rs := []rune(src)
		at := strings.Index(src, "- 0")
		pos := len([]rune(src[:at]))
		line, col := 1, 0
		for _, c := range rs[:pos] {
			if c == '\n' {
				line, col = line+1, 0
			} else {
				col++
			}
		}
		for _, opt := range []bool{true, false} {
			p, err := expr.Compile(src, expr.Env(henv.Env{}), expr.Operator("-", "OpSubBoom"), expr.Optimize(opt))
			if err != nil {
				continue
			}
			_, err = lib.Run(p, *henv.MakeFull(henv.Val{}))
			atomic.AddInt64(&runtimeFaults, 1)
			fe := fileErr(err)
			if err == nil || fe == nil {
				continue
			}
			if s := c13Sanity(src, fe); s != "" {
				r.Report(report.Violation{Sub: "runtime/overload", Kind: "location-outside-source", Witness: "failing overloaded operator", Order: int64(1)<<40 + int64(i), Detail: map[string]interface{}{"source": src, "what": s}})
				continue
			}
			if fe.Line != line || fe.Column != col {
				r.Report(report.Violation{Sub: "runtime/overload", Kind: "wrong-position", Witness: "failing overloaded operator", Order: int64(1)<<40 + int64(i),
					Detail: map[string]interface{}{"source": src, "optimize": opt, "expected": fmt.Sprintf("%d:%d", line, col), "reported": fmt.Sprintf("%d:%d", fe.Line, fe.Column), "message": fe.Message}})
			}
		}
	}
	// (F) failures of a builtin's own machinery (its collection is not a collection, its predicate does not yield a bool)
	// belong to the builtin: they are reported at the first character of its name, whatever surrounds it
	posOf := func(src string, at int) (int, int) {
		line, col := 1, 0
		for _, c := range []rune(src[:at]) {
			if c == '\n' {
				line, col = line+1, 0
			} else {
				col++
			}
		}
		return line, col
	}
	for bi, b := range []string{"all", "none", "any", "one", "filter", "map", "count"} {
		body, bad := "true", "X"
		if b == "map" {
			body = "1"
		}
		for ci, ctx := range []string{"%s", "[1, %s]", "B or %s == nil", "[\"é😀\",\n  %s]", "len([%s, 2])", "{a: %s}.a", "Id(1) > 0 ? %s : 0", "not (%s == 1)"} {
			for _, call := range []string{b + "(X, {" + body + "})", b + "(A, {" + bad + "})", "len(" + b + "(X, {" + body + "}))"} {
				if strings.HasPrefix(call, "len(") && b != "filter" && b != "map" {
					continue
				}
				if b == "map" && strings.Contains(call, "{X}") {
					continue // map accepts any mapper result
				}
				src := fmt.Sprintf(ctx, call)
				at := strings.Index(src, b+"(")
				line, col := posOf(src, at)
				for _, opt := range []bool{true, false} {
					p, err := expr.Compile(src, expr.Env(henv.Env{}), expr.Optimize(opt))
					if err != nil {
						continue
					}
					_, err = lib.Run(p, *henv.MakeFull(henv.Val{}))
					atomic.AddInt64(&runtimeFaults, 1)
					fe := fileErr(err)
					if err == nil {
						continue
					}
					order := int64(1)<<40 + 1000 + int64(bi*100+ci)
					if fe == nil || fe.Location.Empty() {
						r.Report(report.Violation{Sub: "runtime/builtin", Kind: "no-position", Witness: "failing machinery of " + b, Order: order, Detail: map[string]interface{}{"source": src, "optimize": opt, "error": err.Error()}})
						continue
					}
					if s := c13Sanity(src, fe); s != "" {
						r.Report(report.Violation{Sub: "runtime/builtin", Kind: "location-outside-source", Witness: "failing machinery of " + b, Order: order, Detail: map[string]interface{}{"source": src, "what": s}})
						continue
					}
					if fe.Line != line || fe.Column != col {
						r.Report(report.Violation{Sub: "runtime/builtin", Kind: "wrong-position", Witness: "failing machinery of " + b, Order: order,
							Detail: map[string]interface{}{"source": src, "optimize": opt, "expected": fmt.Sprintf("%d:%d", line, col), "reported": fmt.Sprintf("%d:%d", fe.Line, fe.Column), "message": fe.Message}})
					}
				}
			}
		}
	}
	// (G) the same keyword literal written several times: a fault at a later occurrence is reported there
	for i, c := range []struct {
		src, needle string
		occ         int
	}{
		{"B == true or Id(true) > 0", "true", 2}, {"B == true or B == false or Id(false) > 0", "false", 2}, {"[true, true, Id(true)]", "true", 3}, {"O == nil or\n (nil ? 1 : 2) > 0", "nil", 2},
		{"B == true or\n  I + true > 0", "+", 1}, {"[nil, nil, Id(nil)]", "nil", 3}, {"B ? true : Cat(true, S)", "true", 2}, {"not true or not (false + 1 > 0)", "+", 1}, {"[false, Pos(false)]", "false", 2},
	} {
		at := -1
		for k, from := 0, 0; k < c.occ; k++ {
			j := strings.Index(c.src[from:], c.needle)
			if j < 0 {
				at = -1
				break
			}
			at = from + j
			from = at + len(c.needle)
		}
		if at < 0 {
			continue
		}
		line, col := posOf(c.src, at)
		for _, opt := range []bool{true, false} {
			_, err := expr.Compile(c.src, expr.Env(henv.Env{}), expr.Optimize(opt))
			atomic.AddInt64(&compileFaults, 1)
			fe := fileErr(err)
			if err == nil || fe == nil {
				continue
			}
			if fe.Line != line || fe.Column != col {
				r.Report(report.Violation{Sub: "compile/repeated-literal", Kind: "wrong-position", Witness: fmt.Sprintf("occurrence %d of %s", c.occ, c.needle), Order: int64(1)<<40 + 5000 + int64(i),
					Detail: map[string]interface{}{"source": c.src, "expected": fmt.Sprintf("%d:%d", line, col), "reported": fmt.Sprintf("%d:%d", fe.Line, fe.Column), "message": fe.Message}})
			}
		}
	}
	r.Set("runtime_faults_checked", runtimeFaults)
	r.Set("compile_faults_injected", compileFaults)
	r.Set("syntax_faults_injected", syntaxFaults)
	r.Set("locations_checked_inside_source", sane)
	r.Set("evaluations", runtimeFaults+compileFaults+syntaxFaults)
	r.Set("transitions", runtimeFaults+compileFaults+syntaxFaults)
	r.Set("traces_validated_against_impl", runtimeFaults+compileFaults+syntaxFaults)
	r.Set("distinct_nontrivial", sane)
	r.Set("layouts", []string{"line", "multiline", "unicode-prefix", "unicode-prefix-multiline"})
	r.Set("rule", "every expression of the scalar/access/loops slices up to the node budget x every value: (A) each run the reference evaluator fails at a located node must report that node's location token; (B) at every position one injected fault (unknown name/function/field, one mismatching operand of a binary or unary operator) must be reported at that position; (C) every single stray token (4 kinds) at every token boundary and every single deleted token must be reported where the reference grammar stops; each in four layouts (single line, multi-line, non-ASCII prefix, both); (D) every reported location must lie inside the source and its snippet must be the named line")
	r.Assume("location convention of DESIGN.md Appendix D (names, operators, '[' and member names are pinned by checker_test/expr_test); conditionals carry no location and are not used as fault sites")
	r.Assume("token positions of the laid out text are computed by the harness printer, independently of the lexer, for (A),(B); (C) uses the lexer's token positions (checked by C12)")
}

func lineOffsets(src string) []int {
	offs := []int{0}
	for i, c := range []rune(src) {
		if c == '\n' {
			offs = append(offs, i+1)
		}
	}
	return offs
}
