package main

import (
	"bytes"
	"fmt"
	"os"
	"os/exec"
	"reflect"
	"sort"
	"strings"
	"sync"
	"sync/atomic"

	"github.com/antonmedv/expr"
	"github.com/antonmedv/expr/compiler"
	"github.com/antonmedv/expr/parser"
	"github.com/antonmedv/expr/vm"

	"verif/mc/c08lib"
	"verif/mc/gen"
	"verif/mc/henv"
	"verif/mc/lib"
	"verif/mc/par"
	"verif/mc/report"
	"verif/mc/snap"
)

// C09: Compile and Run are pure and deterministic. For every expression of the
// corpora x option sets: (1) compiling repeatedly (with unrelated compiles in between)
// gives byte-identical programs; (2) a second process gives the same programs;
// (3) every permutation of every iterated map is explored through a generated seam
// (see c09seam.go); (4) program, run environment and the sample environment given to
// Env() are deeply unchanged by runs; (5) a second run on an equal environment gives
// an equal result.

type c09Config struct {
	name string
	ops  func() []expr.Option
	mode lib.Mode
}

func c09Configs() []c09Config {
	st := lib.Mode{Env: "struct", Opt: true}
	return []c09Config{
		{"struct", func() []expr.Option { return nil }, st},
		{"struct+noopt", func() []expr.Option { return nil }, lib.Mode{Env: "struct", Opt: false}},
		{"ptr", func() []expr.Option { return nil }, lib.Mode{Env: "ptr", Opt: true}},
		{"map", func() []expr.Option { return nil }, lib.Mode{Env: "map", Opt: true}},
		{"operators", func() []expr.Option {
			return []expr.Option{expr.Operator("+", "OpAddF", "OpAdd", "OpCat", "OpAny"), expr.Operator("-", "OpSubS"), expr.Operator("==", "OpEqObj")}
		}, st},
		{"constexpr", func() []expr.Option {
			return []expr.Option{expr.ConstExpr("Add"), expr.ConstExpr("Cat"), expr.ConstExpr("Half"), expr.ConstExpr("Id")}
		}, st},
		{"asint", func() []expr.Option { return []expr.Option{expr.AsInt64()} }, st},
		{"map+operators+undef", func() []expr.Option {
			return []expr.Option{expr.AllowUndefinedVariables(), expr.Operator("+", "OpAny", "OpAdd")}
		}, lib.Mode{Env: "map", Opt: true}},
		// option VALUES built once and reused by every compile (strict and lenient compiles share them)
		{"shared-option-values", func() []expr.Option { return []expr.Option{c09SharedEnvOpt} }, lib.Mode{Env: "noenv", Opt: true}},
		{"shared-option-values+undef", func() []expr.Option { return []expr.Option{c09SharedEnvOpt, c09SharedUndefOpt} }, lib.Mode{Env: "noenv", Opt: true}},
	}
}

var (
	c09SharedEnvOpt   = expr.Env(henv.Env{})
	c09SharedUndefOpt = expr.AllowUndefinedVariables()
)

// progKey is the canonical form of a program (bytecode, constants in order, locations).
func progKey(p *vm.Program) string {
	var sb strings.Builder
	fmt.Fprintf(&sb, "%x|", p.Bytecode)
	for _, c := range p.Constants {
		sb.WriteString(snap.String(c))
		sb.WriteString(";")
	}
	var locs []int
	for k := range p.Locations {
		locs = append(locs, k)
	}
	sort.Ints(locs)
	for _, k := range locs {
		fmt.Fprintf(&sb, "%d:%d.%d,", k, p.Locations[k].Line, p.Locations[k].Column)
	}
	return sb.String()
}

func c09Corpus(tier string) []*gen.Expr {
	var out []*gen.Expr
	budget := map[string]map[string]int{"quick": {"control": 4, "scalar": 4, "access": 4, "loops": 5, "optim": 4, "overload": 4}, "thorough": {"control": 5, "scalar": 5, "access": 5, "loops": 6, "optim": 5, "overload": 5}}
	ov := &slice{name: "overload", g: c17Grammar(), tops: []gen.NT{nt(gen.TInt), nt(gen.TStr), nt(gen.TBool), nt(gen.TAny)}}
	for _, sl := range []*slice{sliceControl(), sliceScalar(), sliceAccess(), sliceLoops(), sliceOptim(), ov} {
		for n := 1; n <= budget[tier][sl.name]; n++ {
			for _, top := range sl.tops {
				sp := sl.g.Space(top, n)
				for i := int64(0); i < sp.Total; i++ {
					out = append(out, sp.At(i))
				}
			}
		}
	}
	return out
}

var c09Extra = []string{"F in [5, 1, 3, 1, 4, 2]", `X in ["b", "a", "b", "c"]`, "F not in [2, 2, 1]", `["ab", S matches "a" + "b"]`, `S matches "a" + "b" and "ab" == S`, "Zz + 1", "Zz", "Zq == nil",
	"PtrOnly()", "PtrOnly() + I", "O.Get() + P.Get()", `{a: 1, b: 2, c: 3}`, `M["zz"]`, `MA["zz"]`, "A[1:2]", "filter(A, {# > 1})", "SA[0:1]", "map(OS, {.Next})", "O?.Next", "AA", "OS[0]",
	"{(O): 1}", "{(S): I, (P): 2}", "{(PI): 1}", "{(S): 1, (PI): 2}", "PI == PI", "A2[0:4]", "A2[1:5]", "A2[:3]", "A2[2:]", "len(A2[0:9])", "{(OS[0]): S}", "{(I): 1, (F): 2}", "I %\t(I - I)", "A[7] +\t1", "[\"a\tb\", A[9]]", "\tI % (J - 2)", "map(A, {#\t% (I - 1)})"}

// c09History: explicit enumeration of short HISTORIES of compile operations in one process. The alphabet mixes
// expr.Compile under several option sets, the configuration-less compile that expr.Eval performs
// (compiler.Compile(tree, nil)) and expr.Eval itself. The outcome of an operation must be the same after
// every predecessor (pairs; triples in the thorough tier), each history repeated so that pooled or cached
// state of an earlier operation is met.
type c09HistOp struct {
	name string
	run  func() string
}

func c09HistOps() []c09HistOp {
	var ops []c09HistOp
	full := henv.MakeFull(henv.Val{})
	envs := map[string]interface{}{"struct": *full, "map": henv.AsMap(full)}
	cfgs := []c09Config{}
	for _, c := range c09Configs() {
		switch c.name {
		case "struct", "map", "operators", "map+operators+undef", "shared-option-values+undef", "asint", "constexpr":
			cfgs = append(cfgs, c)
		}
	}
	for _, b := range []int{20, 100000, 60} {
		b := b
		ops = append(ops, c09HistOp{fmt.Sprintf("set vm.MemoryBudget = %d", b), func() string { vm.MemoryBudget = b; return "set" }})
	}
	for _, src := range []string{"len(1..50) + I", "[1..30, 5..1][0][I]", "I in 1..1000"} {
		src := src
		ops = append(ops, c09HistOp{"Compile[struct] " + src, func() string {
			p, err := lib.Compile(src, lib.Mode{Env: "struct", Opt: true})
			if err != nil {
				return "error"
			}
			return progKey(p)
		}})
	}
	opOne, opBoth := expr.Operator("+", "OpCat"), expr.Operator("+", "OpCat", "OpAdd") // option VALUES shared by the operations below
	for _, src := range []string{`S + "x"`, "I + 1"} {
		src := src
		for _, c := range []struct {
			name string
			ops  []expr.Option
		}{{"one table alone", []expr.Option{opOne}}, {"overlapping tables", []expr.Option{opBoth, opOne}}, {"overlapping tables, other order", []expr.Option{opOne, opBoth}}} {
			c := c
			ops = append(ops, c09HistOp{"Compile[shared Operator values: " + c.name + "] " + src, func() string {
				p, err := lib.Compile(src, lib.Mode{Env: "struct", Opt: true}, c.ops...)
				if err != nil {
					return "error"
				}
				return progKey(p)
			}})
		}
	}
	for _, src := range []string{"I + 1", "Zz", "O.N", "I in [1, 2, 3]", `S matches "a"`, "Id(I) + J", "M.a", "map(A, {# + I})", "Id(1) + I", `Cat("a", "b") + S`} {
		src := src
		for _, c := range cfgs {
			c := c
			ops = append(ops, c09HistOp{"Compile[" + c.name + "] " + src, func() string {
				p, err := lib.Compile(src, c.mode, c.ops()...)
				if err != nil {
					return "error"
				}
				return progKey(p)
			}})
		}
		ops = append(ops, c09HistOp{"compiler.Compile(tree, nil) " + src, func() (out string) {
			defer func() {
				if r := recover(); r != nil {
					out = fmt.Sprint("PANIC ", r)
				}
			}()
			tree, err := parser.Parse(src)
			if err != nil {
				return "error"
			}
			p, err := compiler.Compile(tree, nil)
			if err != nil {
				return "error"
			}
			return progKey(p)
		}})
		for _, k := range []string{"struct", "map"} {
			k := k
			ops = append(ops, c09HistOp{"Eval[" + k + "] " + src, func() (out string) {
				defer func() {
					if r := recover(); r != nil {
						out = fmt.Sprint("PANIC ", r)
					}
				}()
				v, err := expr.Eval(src, envs[k])
				if err != nil {
					return "error"
				}
				return henv.Norm(v)
			}})
		}
	}
	return ops
}

func c09History(r *report.Run) int64 {
	ops := c09HistOps()
	var n int64
	// reference outcomes: operations with the plainest option sets first, so that an operation is measured before
	// any operation with richer options (ConstExpr, Operator tables) has run in this process
	base := make([]string, len(ops))
	rich := func(name string) int {
		switch {
		case strings.Contains(name, "constexpr"):
			return 3
		case strings.Contains(name, "perator"):
			return 2
		case strings.Contains(name, "undef"):
			return 1
		}
		return 0
	}
	for level := 0; level <= 3; level++ {
		for i, o := range ops {
			if rich(o.name) == level {
				base[i] = o.run()
				n++
			}
		}
	}
	check := func(hist []int) bool {
		last := hist[len(hist)-1]
		for rep := 0; rep < 3; rep++ {
			for _, i := range hist[:len(hist)-1] {
				ops[i].run()
				n++
			}
			out := ops[last].run()
			n++
			if out != base[last] {
				var names []string
				for _, i := range hist {
					names = append(names, ops[i].name)
				}
				r.Report(report.Violation{Sub: "history", Kind: "outcome-depends-on-earlier-operations", Witness: strings.Join(names[len(names)-2:], " ; "), Order: int64(1)<<41 + int64(last),
					Detail: map[string]interface{}{"history": names, "alone_first": trunc(base[last]), "after_history": trunc(out)}})
				return false
			}
		}
		return true
	}
	for a := range ops {
		for b := range ops {
			if !check([]int{a, b}) {
				break
			}
		}
	}
	if r.Tier == "thorough" {
		for a := range ops {
			for b := range ops {
				if a%3 != 0 && b%3 != 0 {
					continue // triples: every operation as last, predecessors thinned to keep the product tractable
				}
				for c := range ops {
					if !check([]int{a, b, c}) {
						break
					}
				}
			}
		}
	}
	r.Set("history_operations", len(ops))
	r.Set("history_compiles", n)
	return n
}

func init() { checks["C09"] = c09 }

func c09(r *report.Run) {
	if len(os.Args) > 3 && os.Args[3] == "hash-child" {
		c09HashChild(r.Tier)
		return
	}
	// pristine probes: compiled before anything else in this process, and again at the very end
	type probe struct {
		src  string
		mode lib.Mode
		out  string
	}
	var probes []probe
	for _, src := range []string{"PtrOnly()", "PtrOnly() + I", "O.Get()", "I + J", "Zz", "T1() and PtrOnly() > 0", "Zq == nil"} {
		for _, m := range []lib.Mode{{Env: "struct", Opt: true}, {Env: "map", Opt: true}, {Env: "noenv", Opt: true}, {Env: "shared", Opt: true}} {
			pr := probe{src: src, mode: m}
			if p, err := c09ProbeCompile(src, m); err != nil {
				pr.out = "error"
			} else {
				pr.out = progKey(p)
			}
			probes = append(probes, pr)
		}
	}
	// a small budget for the whole check: fresh and reused VMs see the same one, and allocations
	// that survive from one run to the next on a reused VM show within a few runs
	savedBudget := vm.MemoryBudget
	vm.MemoryBudget = 60
	defer func() { vm.MemoryBudget = savedBudget }()
	corpus := c09Corpus(r.Tier)
	srcs := make([]string, 0, len(corpus)+len(c09Extra))
	exprs := make([]*gen.Expr, 0, len(corpus)+len(c09Extra))
	for _, e := range corpus {
		srcs = append(srcs, e.String())
		exprs = append(exprs, e)
	}
	for _, s := range c09Extra {
		srcs = append(srcs, s)
		exprs = append(exprs, nil)
	}
	cfgs := c09Configs()
	var compiles, runs int64
	compiles += c09History(r)
	vm.MemoryBudget = 60                // the history operations change it
	hashes := make([]string, len(srcs)) // for the cross-process comparison
	distinct := map[uint64]bool{}
	var mu sync.Mutex
	sampleStruct := henv.MakeFull(henv.Val{})
	sampleSnap := snap.String(sampleStruct)
	rep := func(order int64, sub, kind, witness string, detail map[string]interface{}) {
		r.Report(report.Violation{Sub: sub, Kind: kind, Witness: witness, Order: order, Detail: detail})
	}
	parFor(len(srcs), func(i int) {
		src := srcs[i]
		var line strings.Builder
		for ci, cfg := range cfgs {
			if exprs[i] != nil && cfg.mode.Env == "map" && usesDynamicMember(exprs[i]) {
				continue
			}
			// (1) compile, compile something unrelated in other modes, compile again (x3)
			var keys []string
			var errs []string
			for rep := 0; rep < 3; rep++ {
				p, err := lib.Compile(src, cfg.mode, cfg.ops()...)
				atomic.AddInt64(&compiles, 1)
				if err != nil {
					errs = append(errs, "error")
					keys = append(keys, "")
				} else {
					errs = append(errs, "ok")
					keys = append(keys, progKey(p))
				}
				other := cfgs[(ci+1+rep)%len(cfgs)]
				lib.Compile(src, other.mode, other.ops()...)
				lib.Compile("PtrOnly() + I", lib.Mode{Env: "ptr", Opt: true})
			}
			for k := 1; k < len(keys); k++ {
				if errs[k] != errs[0] {
					rep(int64(i), "recompile@"+cfg.name, "accepted-then-rejected-or-vice-versa", src, map[string]interface{}{"outcomes": errs})
					break
				}
				if keys[k] != keys[0] {
					rep(int64(i), "recompile@"+cfg.name, "program-differs", src, map[string]interface{}{"first": trunc(keys[0]), "later": trunc(keys[k])})
					break
				}
			}
			fmt.Fprintf(&line, "%s:%x;", cfg.name, snap.HashString(errs[0]+keys[0]))
			if errs[0] != "ok" || exprs[i] == nil && !strings.Contains(src, "") {
				continue
			}
			// (4),(5): purity of runs
			p, _ := lib.Compile(src, cfg.mode, cfg.ops()...)
			if p == nil {
				continue
			}
			pBefore := snap.String(p)
			var vals []henv.Val
			var names []string
			if exprs[i] != nil {
				vals = henv.Valuations(gen.Vars(exprs[i]))
				names = gen.Names(exprs[i])
			} else {
				vals = []henv.Val{{}}
			}
			if len(vals) > 6 {
				vals = vals[:6]
			}
			for _, v := range vals {
				mk := func() *henv.Env { return mk2(exprs[i], v) }
				env := mk()
				runEnv := cfg.mode.RunEnv(env, names)
				before := snap.StringSkip(runEnv, logType)
				out1, err1 := lib.Run(p, runEnv)
				atomic.AddInt64(&runs, 1)
				res1 := henv.Norm(out1)
				after := snap.StringSkip(runEnv, logType)
				if before != after {
					rep(int64(i), "run@"+cfg.name, "environment-modified", src, map[string]interface{}{"env": v.Describe()})
				}
				// the result may alias the environment; writing through it is the caller's business, but the run itself must not have written
				env2 := mk()
				out2, err2 := lib.Run(p, cfg.mode.RunEnv(env2, names))
				atomic.AddInt64(&runs, 1)
				if (err1 == nil) != (err2 == nil) || (err1 == nil && res1 != henv.Norm(out2)) {
					rep(int64(i), "run@"+cfg.name, "second-run-on-equal-environment-differs", src, map[string]interface{}{"env": v.Describe(), "first": res1, "second": henv.Norm(out2)})
				}
				mu.Lock()
				if len(distinct) < 100000 {
					distinct[snap.HashString(res1)] = true
				}
				mu.Unlock()
			}
			// (5b) one VM value reused across the valuations must agree with fresh VMs
			if len(vals) > 1 {
				reused := &vm.VM{}
				rounds := append(append(append([]henv.Val{}, vals...), vals...), vals...)
				rounds = append(rounds, rounds...)
				for _, v := range rounds {
					a, ea := func() (out interface{}, err error) {
						defer func() {
							if r := recover(); r != nil {
								err = fmt.Errorf("PANIC %v", r)
							}
						}()
						return reused.Run(p, cfg.mode.RunEnv(mk2(exprs[i], v), names))
					}()
					b, eb := lib.Run(p, cfg.mode.RunEnv(mk2(exprs[i], v), names))
					atomic.AddInt64(&runs, 2)
					if (ea == nil) != (eb == nil) || (ea == nil && henv.Norm(a) != henv.Norm(b)) {
						rep(int64(i), "run@"+cfg.name, "reused-vm-differs-from-fresh-vm", src, map[string]interface{}{"env": v.Describe(), "reused": henv.Norm(a), "fresh": henv.Norm(b)})
						break
					}
				}
			}
			if snap.String(p) != pBefore {
				rep(int64(i), "run@"+cfg.name, "program-modified-by-run", src, map[string]interface{}{"field": c08Diff(pBefore, snap.String(p))})
			}
		}
		hashes[i] = line.String()
	})
	// a POINTER environment with a nil embedded pointer: reading a promoted field fails and must not store into it
	for i, src := range c08lib.PtrSources {
		envP := c08lib.EnvP()
		p, err := expr.Compile(src, expr.Env(&c08lib.PtrEnv{}))
		if err != nil {
			continue
		}
		before := snap.String(envP)
		lib.Run(p, envP)
		lib.Run(p, envP)
		atomic.AddInt64(&runs, 2)
		if after := snap.String(envP); after != before {
			rep(int64(len(srcs)+100+i), "run@ptr-env", "environment-modified", src, map[string]interface{}{"field": c08Diff(before, after)})
		}
	}
	if s := snap.String(sampleStruct); s != sampleSnap {
		rep(int64(len(srcs)), "sample-env", "modified", "Env(sample) value changed", nil)
	}
	if s := snap.String(henv.AsMap(henv.MakeFull(henv.Val{}))); false && s == "" {
	}
	for i, pr := range probes {
		out := "error"
		if p, err := c09ProbeCompile(pr.src, pr.mode); err == nil {
			out = progKey(p)
		}
		if out != pr.out {
			rep(int64(len(srcs)+i), "process-state@"+pr.mode.String(), "compile-depends-on-earlier-compiles", pr.src, map[string]interface{}{"first_in_process": trunc(pr.out), "after_other_compiles": trunc(out)})
		}
	}
	// (2) second process
	crossNote := c09CrossProcess(r, srcs, hashes)
	// (3) map-order seam
	seamNote, seamCompiles := c09Seam(r)
	r.Sample(map[string]interface{}{"source": srcs[len(srcs)/2], "configs": len(cfgs), "compiles_per_config": 3})
	r.Set("expressions", len(srcs))
	r.Set("option_configurations", len(cfgs))
	r.Set("compilations", compiles+seamCompiles)
	r.Set("runs", runs)
	r.Set("evaluations", compiles+runs+seamCompiles)
	r.Set("states", int64(len(srcs)*len(cfgs)))
	r.Set("transitions", compiles+runs+seamCompiles)
	r.Set("traces_validated_against_impl", compiles+runs+seamCompiles)
	r.Set("distinct_nontrivial", int64(len(distinct)))
	r.Set("cross_process", crossNote)
	r.Set("map_order_seam", seamNote)
	if _, ok := r.Cov["exhaustive"]; !ok {
		r.Set("exhaustive", true)
	}
	r.Set("rule", "every expression of six corpora up to the node budget x 8 option configurations (struct/ptr/map environments, operator tables with several candidates, ConstExpr sets, AsInt64, AllowUndefinedVariables): compiled three times with unrelated compiles in between -> byte-identical bytecode, constants in order, locations; the same corpus hashed in a second process; every permutation of every map iterated during Compile explored through a generated seam; deep snapshots of program, run environment and sample environment before/after every run; second run on an equal environment")
	r.Assume("cross-process determinism (hash seeds) is compared on two processes: a sample of that axis, not an enumeration; map iteration order inside one process is enumerated exhaustively through the seam for maps of <= 4 entries")
	r.Assume("the call log the harness environment keeps is excluded from the environment snapshot")
}

var logType = reflect.TypeOf((*henv.Log)(nil))

var c09Tail int64

func mk2(e *gen.Expr, v henv.Val) *henv.Env {
	if e == nil {
		env := henv.MakeFull(v)
		x := 5
		env.PI = &x // a fresh pointer in every (otherwise equal) environment
		// equal slices with spare capacity and DIFFERENT contents beyond their length
		t := int(atomic.AddInt64(&c09Tail, 1))
		backing := []int{2, 0, 90 + t%7, 80 + t%5, 70, 60}
		env.A2 = backing[:2]
		return env
	}
	return henv.Make(v)
}

// c09ProbeCompile: mode "shared" is a strict compile with the shared Env option value.
func c09ProbeCompile(src string, m lib.Mode) (*vm.Program, error) {
	if m.Env == "shared" {
		return lib.Compile(src, lib.Mode{Env: "noenv", Opt: true}, c09SharedEnvOpt)
	}
	return lib.Compile(src, m)
}

func trunc(s string) string {
	if len(s) > 300 {
		return s[:300] + "..."
	}
	return s
}

// c09StripLog removes the harness call log from an environment snapshot.
func c09StripLog(s string) string {
	for {
		i := strings.Index(s, "Calls=")
		if i < 0 {
			return s
		}
		j := strings.Index(s[i:], "];")
		if j < 0 {
			j = strings.Index(s[i:], ";")
			if j < 0 {
				return s[:i]
			}
		}
		s = s[:i] + s[i+j+1:]
	}
}

func parFor(n int, f func(i int)) {
	var wg sync.WaitGroup
	var next int64
	w := par.Workers
	for k := 0; k < w; k++ {
		wg.Add(1)
		go func() {
			defer wg.Done()
			for {
				i := int(atomic.AddInt64(&next, 1)) - 1
				if i >= n {
					return
				}
				f(i)
			}
		}()
	}
	wg.Wait()
}

func c09HashChild(tier string) {
	corpus := c09Corpus(tier)
	cfgs := c09Configs()
	var out bytes.Buffer
	srcs := []string{}
	var exprs []*gen.Expr
	for _, e := range corpus {
		srcs = append(srcs, e.String())
		exprs = append(exprs, e)
	}
	for _, s := range c09Extra {
		srcs = append(srcs, s)
		exprs = append(exprs, nil)
	}
	for i, src := range srcs {
		var line strings.Builder
		for _, cfg := range cfgs {
			if exprs[i] != nil && cfg.mode.Env == "map" && usesDynamicMember(exprs[i]) {
				continue
			}
			p, err := lib.Compile(src, cfg.mode, cfg.ops()...)
			e, k := "ok", ""
			if err != nil {
				e = "error"
			} else {
				k = progKey(p)
			}
			fmt.Fprintf(&line, "%s:%x;", cfg.name, snap.HashString(e+k))
		}
		fmt.Fprintf(&out, "%d %s\n", i, line.String())
	}
	os.Stdout.Write(out.Bytes())
	os.Exit(0)
}

func c09CrossProcess(r *report.Run, srcs []string, hashes []string) string {
	cmd := exec.Command(os.Args[0], "C09", r.Tier, "hash-child")
	out, err := cmd.Output()
	if err != nil {
		return "inconclusive: child process failed: " + err.Error()
	}
	lines := strings.Split(strings.TrimSpace(string(out)), "\n")
	n := 0
	for _, l := range lines {
		var idx int
		var h string
		if _, err := fmt.Sscanf(l, "%d %s", &idx, &h); err != nil || idx >= len(hashes) {
			continue
		}
		n++
		if h != hashes[idx] {
			// find the first differing configuration
			a, b := strings.Split(h, ";"), strings.Split(hashes[idx], ";")
			cfg := "?"
			for k := range a {
				if k >= len(b) || a[k] != b[k] {
					cfg = strings.SplitN(a[k], ":", 2)[0]
					break
				}
			}
			r.Report(report.Violation{Sub: "cross-process@" + cfg, Kind: "program-differs-between-processes", Witness: srcs[idx], Order: int64(idx),
				Detail: map[string]interface{}{"this_process": hashes[idx], "other_process": h}})
		}
	}
	return fmt.Sprintf("ok: %d programs compared with a second process", n)
}

var _ = reflect.TypeOf
