package main

import (
	"fmt"
	"sync"
	"sync/atomic"

	"github.com/antonmedv/expr/vm"

	"verif/mc/gen"
	"verif/mc/guard"
	"verif/mc/henv"
	"verif/mc/lib"
	"verif/mc/par"
	"verif/mc/ref"
	"verif/mc/report"
)

// C01: compiled evaluation conforms to the language definition. Small-scope
// exhaustive enumeration of typed expressions x environments x compile modes on the
// real Compile/Run against the reference evaluator (value, failure, call log).

type mismatch struct {
	mode   string
	kind   string
	val    henv.Val
	detail string
}

// c01Oracle evaluates one expression in all modes on all valuations and returns
// the mismatches (at most one per mode and kind) plus the number of runs.
func c01Oracle(e *gen.Expr, modes []lib.Mode, onlyMode, onlyKind string) (out []mismatch, runs int64, outcomes []string) {
	src := e.String()
	vals := henv.Valuations(gen.Vars(e))
	names := gen.Names(e)
	refs := make([]ref.Result, len(vals))
	refNorm := make([]string, len(vals))
	for i, v := range vals {
		refs[i] = ref.Eval(e, henv.Make(v))
		if !refs[i].Failed {
			refNorm[i] = henv.Norm(refs[i].Val)
		}
	}
	seen := map[string]bool{}
	add := func(m mismatch) {
		k := m.mode + "|" + m.kind
		if !seen[k] {
			seen[k] = true
			out = append(out, m)
		}
	}
	dyn := usesDynamicMember(e)
	for _, m := range modes {
		if onlyMode != "" && m.String() != onlyMode {
			continue
		}
		if dyn && m.Env == "map" {
			continue // a map environment types interface{} members from its sample values
		}
		var prog *vm.Program
		var err error
		prog, err = lib.Compile(src, m)
		if err != nil {
			if _, isPanic := err.(*lib.PanicError); !isPanic && m.Opt && ref.HasConstDivZero(e) {
				continue // the optimizer may reject a constant integer division by zero
			}
			kind := "rejected"
			if _, ok := err.(*lib.PanicError); ok {
				kind = "compile-panic"
			}
			add(mismatch{mode: m.String(), kind: kind, val: henv.Val{}, detail: err.Error()})
			continue
		}
		for i, v := range vals {
			env := henv.Make(v)
			got, err := lib.Run(prog, m.RunEnv(env, names))
			runs++
			r := refs[i]
			log := env.L.String()
			switch {
			case err != nil && !r.Failed:
				add(mismatch{m.String(), "fails", v, fmt.Sprintf("error %q, reference value %s", err.Error(), refNorm[i])})
			case err == nil && r.Failed:
				add(mismatch{m.String(), "succeeds", v, fmt.Sprintf("value %s, reference fails: %s", henv.Norm(got), r.Why)})
			case err == nil:
				g := henv.Norm(got)
				if g != refNorm[i] {
					add(mismatch{m.String(), "value", v, fmt.Sprintf("got %s, reference %s", g, refNorm[i])})
				} else if log != r.Log {
					add(mismatch{m.String(), "calls", v, fmt.Sprintf("call log %q, reference %q", log, r.Log)})
				}
				if onlyMode == "" && i < 4 {
					outcomes = append(outcomes, g)
				}
			}
		}
	}
	if onlyKind != "" {
		var f []mismatch
		for _, m := range out {
			if m.kind == onlyKind {
				f = append(f, m)
			}
		}
		out = f
	}
	return
}

func init() { checks["C01"] = c01 }

func c01(r *report.Run) {
	slices := []*slice{sliceControl(), sliceScalar(), sliceAccess(), sliceLoops(), sliceNestType(), sliceAliases(), sliceCalls(), sliceKinds(), sliceMembership()}
	runSlices(r, slices, func(sl *slice, e *gen.Expr, order int64) (int64, []string) {
		ms, runs, outs := c01Oracle(e, sl.modes, "", "")
		for _, m := range ms {
			m := m
			w := sl.g.Shrink(e, func(c *gen.Expr) bool {
				x, _, _ := c01Oracle(c, sl.modes, m.mode, m.kind)
				return len(x) > 0
			})
			x, _, _ := c01Oracle(w, sl.modes, m.mode, m.kind)
			d := m
			if len(x) > 0 {
				d = x[0]
			}
			r.Report(report.Violation{Sub: m.mode, Kind: m.kind, Witness: w.String(), Order: order,
				Detail: map[string]interface{}{"slice": sl.name, "source": e.String(), "minimal_source": w.String(), "env": d.val.Describe(), "what": d.detail}})
		}
		return runs, outs
	})
	r.Assume("reference evaluator (mc/ref) transcribes docs/Language-Definition.md, Go semantics where the document defers to Go, and TestExpr where the document is silent; constructs whose meaning none of them fixes are outside the alphabets (DESIGN.md 3.3)")
	r.Assume("expressions beyond the node budgets and values outside the small domains are not explored; no random extension (sampling is a different technique)")
}

// runSlices enumerates every slice size by size (smallest first) on all cores.
func runSlices(r *report.Run, slices []*slice, f func(sl *slice, e *gen.Expr, order int64) (int64, []string)) {
	guard.Start(r)
	var exprs, runs int64
	outcomes := map[string]bool{}
	var mu sync.Mutex
	exhaustive := true
	levels := map[string]int{}
	maxAll := 0
	for _, sl := range slices {
		if sl.maxN[r.Tier] > maxAll {
			maxAll = sl.maxN[r.Tier]
		}
	}
	var base int64
	for n := 1; n <= maxAll; n++ {
		for _, sl := range slices {
			if n > sl.maxN[r.Tier] {
				continue
			}
			if r.OutOfTime() {
				exhaustive = false
				continue
			}
			for _, top := range sl.tops {
				sp := sl.g.Space(top, n)
				if sp.Total == 0 {
					continue
				}
				b := base
				par.ForW(int(sp.Total), func(w, i int) {
					e := sp.At(int64(i))
					guard.Enter(w, e.String())
					var rn int64
					var outs []string
					func() {
						defer func() {
							if p := recover(); p != nil {
								// the library drove the harness into a state it cannot handle: report it rather than crash
								r.Report(report.Violation{Sub: "harness", Kind: "exception", Witness: fmt.Sprint(p), Order: b + int64(i),
									Detail: map[string]interface{}{"slice": sl.name, "source": e.String(), "panic": fmt.Sprint(p)}})
							}
						}()
						rn, outs = f(sl, e, b+int64(i))
					}()
					guard.Leave(w)
					atomic.AddInt64(&runs, rn)
					if len(outs) > 0 {
						mu.Lock()
						for _, o := range outs {
							if len(outcomes) < 200000 {
								outcomes[o] = true
							}
						}
						mu.Unlock()
					}
				})
				if n == sl.maxN[r.Tier] || n == 3 {
					e := sp.At(sp.Total / 2)
					r.Sample(map[string]interface{}{"slice": sl.name, "size": n, "expr": e.String()})
				}
				base += sp.Total
				exprs += sp.Total
			}
			levels[sl.name] = n
		}
	}
	r.Set("expressions", exprs)
	r.Set("evaluations", runs)
	r.Set("distinct_nontrivial", int64(len(outcomes)))
	r.Set("states", exprs)
	r.Set("transitions", runs)
	r.Set("traces_validated_against_impl", runs)
	r.Set("node_budget_completed", levels)
	r.Set("exhaustive", exhaustive)
	r.Set("rule", "every expression of each slice grammar with exactly n nodes for n = 1..budget (index-addressable space, smallest first) x full product of the value domains of the members it mentions x compile modes; evaluations = runs of the real VM; states = distinct expressions; distinct_nontrivial = distinct result values observed")
}
