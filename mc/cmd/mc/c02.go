package main

import (
	"fmt"
	"math/big"
	"regexp"
	"strings"

	"github.com/antonmedv/expr"

	"verif/mc/gen"
	"verif/mc/henv"
	"verif/mc/lib"
	"verif/mc/ref"
	"verif/mc/report"
)

// C02: the optimizer is observationally transparent. Differential: every
// expression in which a rewrite can fire, compiled with Optimize(true) and
// Optimize(false) (and with/without ConstExpr marks), run on every environment value.

type c02Opts struct {
	constFns []string
}

func c02Oracle(e *gen.Expr, modes []lib.Mode, onlyMode, onlyKind string, constFns []string) (out []mismatch, runs int64, outcomes []string) {
	src := e.String()
	vals := henv.Valuations(gen.Vars(e))
	names := gen.Names(e)
	seen := map[string]bool{}
	add := func(m mismatch) {
		if onlyKind != "" && m.kind != onlyKind {
			return
		}
		k := m.mode + "|" + m.kind
		if !seen[k] {
			seen[k] = true
			out = append(out, m)
		}
	}
	dyn := usesDynamicMember(e)
	for _, m0 := range modes {
		if onlyMode != "" && m0.Env != onlyMode {
			continue
		}
		if dyn && m0.Env == "map" {
			continue // a map environment types its members from the sample values; interface{} members need a struct
		}
		mN := lib.Mode{Env: m0.Env, Opt: false}
		mO := lib.Mode{Env: m0.Env, Opt: true}
		pN, errN := lib.Compile(src, mN)
		if errN != nil {
			if _, ok := errN.(*lib.PanicError); ok {
				add(mismatch{m0.Env, "compile-panic", henv.Val{}, errN.Error()})
			}
			continue // rejected by the checker: not a program
		}
		var extra []expr.Option
		for _, f := range constFns {
			extra = append(extra, expr.ConstExpr(f))
		}
		pO, errO := lib.Compile(src, mO, extra...)
		if errO != nil {
			if _, ok := errO.(*lib.PanicError); ok {
				add(mismatch{m0.Env, "compile-panic", henv.Val{}, errO.Error()})
				continue
			}
			if ref.HasConstDivZero(e) {
				continue
			}
			if len(constFns) > 0 && hasFailingConstCall(e, constFns) {
				continue // the failure of that call was moved to compile time
			}
			add(mismatch{m0.Env, "optimizer-rejects", henv.Val{}, errO.Error()})
			continue
		}
		for i, v := range vals {
			gN, eN := lib.Run(pN, mN.RunEnv(henv.Make(v), names))
			gO, eO := lib.Run(pO, mO.RunEnv(henv.Make(v), names))
			runs += 2
			switch {
			case eN == nil && eO != nil:
				add(mismatch{m0.Env, "fails-only-optimized", v, fmt.Sprintf("optimized error %q, unoptimized value %s", eO.Error(), henv.Norm(gN))})
			case eN != nil && eO == nil:
				add(mismatch{m0.Env, "fails-only-unoptimized", v, fmt.Sprintf("unoptimized error %q, optimized value %s", eN.Error(), henv.Norm(gO))})
			case eN == nil:
				a, b := henv.Norm(gN), henv.Norm(gO)
				if a != b {
					add(mismatch{m0.Env, "value", v, fmt.Sprintf("optimized %s, unoptimized %s", b, a)})
				}
				if onlyMode == "" && i < 3 {
					outcomes = append(outcomes, a)
				}
			}
		}
	}
	return
}

func init() { checks["C02"] = c02 }

func c02(r *report.Run) {
	report2 := func(sl *slice, e *gen.Expr, order int64, constFns []string, sub string) (int64, []string) {
		ms, runs, outs := c02Oracle(e, sl.modes, "", "", constFns)
		for _, m := range ms {
			m := m
			w := sl.g.Shrink(e, func(c *gen.Expr) bool {
				x, _, _ := c02Oracle(c, sl.modes, m.mode, m.kind, constFns)
				return len(x) > 0
			})
			x, _, _ := c02Oracle(w, sl.modes, m.mode, m.kind, constFns)
			d := m
			if len(x) > 0 {
				d = x[0]
			}
			r.Report(report.Violation{Sub: sub + m.mode, Kind: m.kind, Witness: w.String(), Order: order,
				Detail: map[string]interface{}{"slice": sl.name, "source": e.String(), "minimal_source": w.String(), "env": d.val.Describe(), "what": d.detail, "const_expr": constFns}})
		}
		return runs, outs
	}
	slices := []*slice{sliceOptim(), sliceConstExpr(), func() *slice {
		s := sliceKinds()
		s.modes = []lib.Mode{{Env: "struct"}, {Env: "noenv"}}
		s.maxN = map[string]int{"quick": 6, "thorough": 7}
		return s
	}(), func() *slice {
		s := sliceMembership()
		s.modes = []lib.Mode{{Env: "struct"}, {Env: "noenv"}, {Env: "map"}}
		return s
	}()}
	runSlices(r, slices, func(sl *slice, e *gen.Expr, order int64) (int64, []string) {
		if sl.name == "constexpr" {
			return report2(sl, e, order, constExprFns, "constexpr:")
		}
		return report2(sl, e, order, nil, "")
	})
	// boundary constants: ranges and arithmetic at the edges of the integer range and of the budget
	raw := []string{}
	bounds := []string{"0", "1", "-1", "999998", "999999", "1000000", "1000001", "4611686018427387904", "9223372036854775806", "9223372036854775807", "-9223372036854775807", "-5000000000000000000", "5000000000000000000"}
	for _, a := range bounds {
		for _, b := range bounds {
			raw = append(raw, fmt.Sprintf("len(%s..%s)", a, b), fmt.Sprintf("I in %s..%s", a, b), fmt.Sprintf("len(%s..%s) == 0 or (%s..%s)[0] == %s", a, b, a, b, a))
		}
		raw = append(raw, fmt.Sprintf("F + %s + 1", a), fmt.Sprintf("F32 + 1 + %s", a), fmt.Sprintf("%s + F + 1", a))
		raw = append(raw, fmt.Sprintf("%s + 1", a), fmt.Sprintf("%s * 2", a), fmt.Sprintf("-(%s)", a), fmt.Sprintf("%s - 2", a), fmt.Sprintf("I in [%s, 1]", a), fmt.Sprintf("%s %% 7", a), fmt.Sprintf("%s / -1", a))
	}
	for _, chain := range []string{"F32 + 1 + 1", "(F + 1) + 1", "F * 3 * 3", "F32 * 3 * 3", "F + 1 + 1 + 1", "1 + F + 1", "F - 1 - 1", "I64 + 1 + 1", "U8 + 200 + 100", "I8 * 100 * 2", "F / 3 / 3", "F + 2 * 1 + 1", "F32 + 1 + 1 == F32",
		"I in [-(-1), 5]", "I in [- -1, 3]", "I not in [-(+(-1))]", "I in [-1, 1]", "I in [+1, -(-(-1))]", "I in [1 - 2, 0 - -1]", "I in [-0]", `S in ["a" + "b", "c"]`, "I in [1, 1, 1]", "I not in [+(+(1))]"} {
		raw = append(raw, chain)
	}
	// pairs of different composite constants in one program (the constant pool must keep them apart)
	comps := []string{`[1, 2]`, `["1", "2"]`, `["1 2"]`, `[1.0, 2.0]`, `["a b"]`, `["a", "b"]`, `[""]`, `["", ""]`, `[" "]`, `[12]`, `["12"]`, `[1, 2, 3]`, `[true]`, `["true"]`, `1..2`, `[nil]`, `["<nil>"]`}
	for _, c1 := range comps {
		for _, c2 := range comps {
			if c1 != c2 {
				raw = append(raw, fmt.Sprintf("[%s, %s]", c1, c2), fmt.Sprintf("[X in %s, X in %s, len(%s) + len(%s)]", c1, c2, c1, c2))
			}
		}
	}
	// membership tests on '#' over collections whose element type the checker can only guess (dynamic elements)
	for _, c := range []string{"map([0.75, 1], {# * 2})", "map([X, 1], {# + 1})", "map(AA, {1})", "[X, 1]", "map(A, {X})", "filter([1.5, 2], {true})", "map(FA, {# * 2})", "map(A, {# * F})"} {
		for _, rg := range []string{"1..4", "0..2", "[1, 2, 3]"} {
			raw = append(raw, "filter("+c+", {# in "+rg+"})", "count("+c+", {# not in "+rg+"})", "all("+c+", {# in "+rg+"})", "map("+c+", {# + 1 in "+rg+"})")
		}
	}
	// a boolean literal next to an operand that fails or is not a bool: folding must keep the operand's evaluation
	for _, l := range []string{"A[7] > 0", "1 % (I - I) == 0", "X", "S matches \"(\"", "I > 0"} {
		for _, f := range []string{"%s or true", "%s and false", "%s and true", "%s or false", "true or %s", "false and %s", "true and %s", "false or %s", "not (%s or true)", "(%s or true) ? 1 : 2"} {
			raw = append(raw, fmt.Sprintf(f, l))
		}
	}
	// nested closures over collections whose element type is a guess at an outer level
	for _, src := range []string{"any(map(AA, {map(#, {# * 2})}), {any(#, {# in 1..3})})", "map(map(AA, {map(#, {# * 2})}), {filter(#, {# in [1, 2, 3]})})",
		"all(map([[0.75], [8]], {map(#, {# * 2})}), {all(#, {# not in 1..3})})", "count(map([X], {[# * 2]}), {count(#, {# in 1..3}) > 0})"} {
		raw = append(raw, src)
	}
	// map literals with a repeated key (written twice, or equal only after folding), literal and non-literal values
	for _, src := range []string{"{a: 1, a: 2}.a", "{a: 1, b: 2, a: 3}", `{("x" + "y"): "first", xy: "second"}.xy`, `{1: "a", 1: "b"}["1"]`, "{a: I, a: 2}.a", `{"a": 1, a: 2}`, "len({a: 1, a: 2})", "{a: [1], a: [2]}.a[0]"} {
		raw = append(raw, src)
	}
	// slices of literal arrays (folded into typed constants when optimized) with every pair of bounds, descending ones included
	for _, arr := range []string{"[1, 2, 3, 4]", `["a", "b", "c"]`, `[1, "b", 3.5]`, "[1]", `"abcd"`, "1..4", "A"} {
		for _, f := range []string{"", "0", "1", "3", "7", "-1", "I"} {
			for _, t := range []string{"", "0", "1", "2", "7", "-1", "I"} {
				raw = append(raw, fmt.Sprintf("(%s)[%s:%s]", arr, f, t))
			}
		}
	}
	// patterns built by constant concatenation: invalid ones, reached or skipped at run time
	for _, pat := range []string{`"(" + "ab"`, `"[" + "a"`, `"a" + "b"`, `"*" + "a"`, `"a" + "(" + "b"`, `"(" + S`} {
		raw = append(raw, "S matches "+pat, "B and S matches "+pat, "not B and S matches "+pat, "B ? S matches "+pat+" : false", "I > 5 or S matches "+pat, "any(SA, {# matches "+pat+"})")
	}
	var rawRuns int64
	for i, src := range raw {
		for _, m := range []string{"struct", "noenv"} {
			pN, eN := lib.Compile(src, lib.Mode{Env: m, Opt: false})
			if eN != nil {
				continue
			}
			pO, eO := lib.Compile(src, lib.Mode{Env: m, Opt: true})
			order := int64(1)<<42 + int64(i)
			if eO != nil {
				if _, isPanic := eO.(*lib.PanicError); isPanic || !strings.Contains(src, "/ 0") {
					r.Report(report.Violation{Sub: "boundary:" + m, Kind: "optimizer-rejects", Witness: c02RawShape(src), Order: order, Detail: map[string]interface{}{"source": src, "error": eO.Error()}})
				}
				continue
			}
			for vi, iv := range []int{0, 1, 1000000} {
				env := henv.Make(henv.Val{})
				env.I = iv
				env.F = []float64{9007199254740992, 0.1, 1e16}[vi]
				env.F32 = []float32{16777216, 0.1, 3e7}[vi]
				env.I64, env.U8, env.I8 = int64(iv), uint8(200), int8(100)
				env.X = []interface{}{"a b", 1, "1 2"}[vi]
				env.B = vi == 1
				env.AA = []interface{}{[]interface{}{0.75}, []interface{}{8}}
				a, ea := lib.Run(pN, *env)
				b, eb := lib.Run(pO, *env)
				rawRuns += 2
				if (ea == nil) != (eb == nil) {
					kind := "fails-only-optimized"
					if eb == nil {
						kind = "fails-only-unoptimized"
					}
					r.Report(report.Violation{Sub: "boundary:" + m, Kind: kind, Witness: c02RawShape(src), Order: order, Detail: map[string]interface{}{"source": src, "I": iv, "unoptimized": fmt.Sprint(henv.Norm(a), ea), "optimized": fmt.Sprint(henv.Norm(b), eb)}})
					break
				}
				if ea == nil && henv.Norm(a) != henv.Norm(b) {
					r.Report(report.Violation{Sub: "boundary:" + m, Kind: "value", Witness: c02RawShape(src), Order: order, Detail: map[string]interface{}{"source": src, "I": iv, "unoptimized": henv.Norm(a), "optimized": henv.Norm(b)}})
					break
				}
			}
		}
	}
	r.Set("boundary_constant_sources", len(raw))
	r.Set("boundary_constant_runs", rawRuns)
	r.Assume("differential oracle: no expected values; equality is kind-exact for numbers and element-wise for sequences (henv.Norm)")
	r.Assume("the only compile-time rejection allowed to the optimizer is a constant integer division/modulo by zero; a ConstExpr mark may reject only a call that fails at run time unmarked")
}

var constExprFns = []string{"Add", "Cat", "Half", "TakesI64", "TakesF64", "IsNil", "MkArr", "Boom", "Sum", "Fast", "TakesAny", "TakesF32", "Id"}

// constexpr: calls of functions marked as constant expressions on every literal kind,
// folded constants and nested const-expr calls.
func sliceConstExpr() *slice {
	rules := []*gen.Rule{
		gen.Lit("1", gen.TInt, 1), gen.Lit("2", gen.TInt, 2), gen.Lit("0", gen.TInt, 0), gen.Var("I", gen.TInt),
		gen.Lit("1.5", gen.TFloat, 1.5), gen.Lit(`"a"`, gen.TStr, "a"), gen.Var("S", gen.TStr), gen.Lit("nil", gen.TNil, nil),
		gen.Lit("true", gen.TBool, true),
		gen.Bin("+", gen.TInt, gen.TInt, gen.TInt), gen.Bin("-", gen.TInt, gen.TInt, gen.TInt), gen.Un("-", gen.TInt, gen.TInt), gen.Bin("/", gen.TInt, gen.TInt, gen.TInt),
		gen.Bin("+", gen.TStr, gen.TStr, gen.TStr),
		gen.Call("Add", gen.TInt, gen.TInt, gen.TInt), gen.Call("Cat", gen.TStr, gen.TStr, gen.TStr),
		gen.Call("Half", gen.TFloat, gen.TFloat), gen.Call("Half", gen.TFloat, gen.TInt),
		gen.Call("TakesI64", gen.TI64, gen.TInt), gen.Call("TakesF64", gen.TFloat, gen.TInt), gen.Call("TakesF32", gen.TF32, gen.TInt), gen.Bin("*", gen.TF32, gen.TInt, gen.TF32), gen.Bin("==", gen.TF32, gen.TF32, gen.TBool),
		gen.Call("Id", gen.TInt, gen.TInt), gen.Var("O", gen.TObj), gen.Method(gen.TObj, "Id", gen.TInt, false, gen.TInt),
		gen.Call("IsNil", gen.TBool, gen.TNil), gen.Call("IsNil", gen.TBool, gen.TInt),
		gen.Call("MkArr", gen.TIntArr, gen.TInt), gen.Call("Boom", gen.TInt, gen.TInt),
		gen.Call("Sum", gen.TInt), gen.Call("Sum", gen.TInt, gen.TInt), gen.Call("Sum", gen.TInt, gen.TInt, gen.TInt),
		gen.Call("Fast", gen.TAny, gen.TInt, gen.TNil), gen.Call("Fast", gen.TAny),
		gen.Len(gen.TIntArr), gen.Bin("in", gen.TInt, gen.TIntArr, gen.TBool),
		gen.Lit(`"1"`, gen.TStr, "1"), gen.Call("TakesAny", gen.TAny, gen.TInt), gen.Call("TakesAny", gen.TAny, gen.TStr), gen.Call("TakesAny", gen.TAny, gen.TFloat), gen.Arr(gen.TAny, gen.TAny),
		gen.Cond(gen.TInt), gen.Bin(">", gen.TInt, gen.TInt, gen.TBool),
		gen.Bin("==", gen.TI64, gen.TInt, gen.TBool), gen.Bin("+", gen.TFloat, gen.TFloat, gen.TFloat),
	}
	return &slice{name: "constexpr", g: gen.NewGrammar(rules),
		tops:  []gen.NT{nt(gen.TBool), nt(gen.TInt), nt(gen.TFloat), nt(gen.TStr), nt(gen.TIntArr), nt(gen.TI64), nt(gen.TAny), nt(gen.TAnyArr), nt(gen.TF32)},
		modes: []lib.Mode{{Env: "struct"}, {Env: "map"}},
		maxN:  map[string]int{"quick": 5, "thorough": 6}}
}

func usesDynamicMember(e *gen.Expr) bool {
	for _, v := range gen.Vars(e) {
		if v == "X" || v == "Y" {
			return true
		}
	}
	return false
}

// hasFailingConstCall: some call of a marked function with constant arguments fails when evaluated.
func hasFailingConstCall(e *gen.Expr, fns []string) bool {
	found := false
	e.Walk(func(x *gen.Expr) {
		if found || x.R.Op != "call" {
			return
		}
		marked := false
		for _, f := range fns {
			if f == x.R.Arg {
				marked = true
			}
		}
		if !marked || len(gen.Vars(x)) > 0 {
			return
		}
		closedConst := true
		x.Walk(func(y *gen.Expr) {
			if y.R.NeedElem != gen.TNone {
				closedConst = false
			}
		})
		if closedConst && ref.Eval(x, henv.Make(henv.Val{})).Failed {
			found = true
		}
	})
	return found
}

// c02RawShape abstracts the literals of a boundary source that are not special (keeps the family small).
func c02RawShape(src string) string {
	m := rangeRe.FindStringSubmatch(src)
	if m == nil {
		return src
	}
	lo, _ := new(big.Int).SetString(m[1], 10)
	hi, _ := new(big.Int).SetString(m[2], 10)
	span := new(big.Int).Sub(hi, lo)
	span.Add(span, big.NewInt(1))
	class := "span<1e6"
	switch {
	case span.Cmp(new(big.Int).Neg(new(big.Int).Lsh(big.NewInt(1), 63))) < 0:
		class = "descending, span overflows int64"
	case span.Sign() <= 0:
		class = "descending"
	case span.Cmp(new(big.Int).Lsh(big.NewInt(1), 63)) >= 0:
		class = "span overflows int64"
	case span.Cmp(big.NewInt(1000000)) >= 0:
		class = "span>=1e6"
	case span.Cmp(big.NewInt(999999)) >= 0:
		class = "span=1e6-1"
	}
	return rangeRe.ReplaceAllString(src, "A..B") + " [" + class + "]"
}

var rangeRe = regexp.MustCompile(`(-?\d+)\.\.(-?\d+)`)
