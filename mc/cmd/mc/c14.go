package main

import (
	"fmt"
	"math"
	"reflect"
	"strings"

	"github.com/antonmedv/expr"
	"github.com/antonmedv/expr/checker"
	"github.com/antonmedv/expr/conf"
	"github.com/antonmedv/expr/parser"
	"github.com/antonmedv/expr/vm"

	"verif/mc/ref"
	"verif/mc/report"
)

// C14: mixed-kind arithmetic follows one promotion rule. Fully exhaustive over
// 12x12 ordered kind pairs x operators x a boundary grid per kind, on the real
// Compile/Run, against an independent arithmetic model.

func c14Grid(k reflect.Kind) []ref.Num {
	if ref.KindFloat(k) {
		fs := []float64{0, 1, -1, 1.5, -2.5, 16777217, 1e10, math.MaxFloat32, math.SmallestNonzeroFloat32, -0.0, math.NaN(), math.Inf(1), math.Inf(-1)}
		if k == reflect.Float64 {
			fs = append(fs, math.MaxFloat64, math.SmallestNonzeroFloat64, 9007199254740993, 0.1)
		}
		var out []ref.Num
		seen := map[uint64]bool{}
		for _, f := range fs {
			if k == reflect.Float32 {
				f = float64(float32(f))
			}
			if seen[math.Float64bits(f)] {
				continue
			}
			seen[math.Float64bits(f)] = true
			out = append(out, ref.Num{K: k, F: f})
		}
		return out
	}
	w := ref.KindBits(k)
	var raw []uint64
	if ref.KindSigned(k) {
		min := uint64(1) << (w - 1)
		raw = []uint64{0, 1, ^uint64(0), min, min - 1, 0x123456789ABCDEF1, 0xFEDCBA9876543281, 3, ^uint64(0) - 6, 200, 70000}
	} else {
		raw = []uint64{0, 1, ^uint64(0), ^uint64(0) - 1, uint64(1) << (w - 1), 0x123456789ABCDEF1, 0xFEDCBA9876543281, 3, 7, 200, 70000}
	}
	var out []ref.Num
	seen := map[uint64]bool{}
	for _, b := range raw {
		b = ref.Wrap(k, b)
		if seen[b] {
			continue
		}
		seen[b] = true
		out = append(out, ref.Num{K: k, U: b})
	}
	return out
}

func init() { checks["C14"] = c14 }

func c14(r *report.Run) {
	ops := []string{"+", "-", "*", "/", "%", "==", "!=", "<", "<=", ">", ">=", "**"}
	var evals, progs int64
	outcomes := map[string]bool{}
	order := int64(0)
	check := func(mode, src string, prog *vm.Program, env interface{}, want ref.Out, predicted reflect.Type, sigWitness, valDesc string) {
		order++
		out, err := vm.Run(prog, env)
		evals++
		got := ref.Out{}
		if err != nil {
			got.Fail = true
		} else if b, ok := out.(bool); ok {
			got.IsBool, got.B = true, b
		} else if n, ok := ref.FromGo(out); ok {
			got.N = n
		} else {
			got.Fail = true
		}
		outcomes[got.String()] = true
		bad := ""
		switch {
		case got.Fail != want.Fail:
			bad = "failure"
		case got.Fail:
		case got.IsBool != want.IsBool:
			bad = "kind"
		case got.IsBool:
			if got.B != want.B {
				bad = "value"
			}
		case got.N.K != want.N.K:
			bad = "kind"
		case !ref.NumEq(got.N, want.N):
			bad = "value"
		}
		if bad == "" && !got.Fail && predicted != nil && predicted.Kind() != reflect.Interface {
			gk := reflect.Bool
			if !got.IsBool {
				gk = got.N.K
			}
			if predicted.Kind() != gk {
				bad = "checker-kind"
			}
		}
		if bad != "" {
			r.Report(report.Violation{Sub: mode, Kind: bad, Witness: sigWitness, Order: order,
				Detail: map[string]interface{}{"source": src, "values": valDesc, "expected": want.String(), "observed": got.String(), "checker_type": fmt.Sprint(predicted)}})
		}
	}
	for _, ka := range ref.Kinds {
		ga := c14Grid(ka)
		// unary minus
		{
			sample := map[string]interface{}{"a": ga[0].GoValue()}
			for _, mode := range []string{"typed", "untyped"} {
				var prog *vm.Program
				var err error
				var pt reflect.Type
				if mode == "typed" {
					prog, err = expr.Compile("-a", expr.Env(sample))
					tree, _ := parser.Parse("-a")
					pt, _ = checker.Check(tree, conf.New(sample))
				} else {
					prog, err = expr.Compile("-a")
				}
				progs++
				if err != nil {
					order++
					r.Report(report.Violation{Sub: mode, Kind: "rejected", Witness: fmt.Sprintf("-%s", ka), Order: order, Detail: map[string]interface{}{"error": err.Error()}})
					continue
				}
				for _, a := range ga {
					var want ref.Out
					if ref.KindFloat(ka) {
						want = ref.Out{N: ref.Num{K: ka, F: -a.F}}
					} else {
						want = ref.Out{N: ref.Num{K: ka, U: ref.Wrap(ka, -a.U)}}
					}
					check(mode, "-a", prog, map[string]interface{}{"a": a.GoValue()}, want, pt, fmt.Sprintf("-%s", ka), a.String())
				}
			}
		}
		// one operand a literal: the literal is an int (or a float64), whatever its sibling is
		for _, lit := range []struct {
			text string
			n    ref.Num
		}{{"0", ref.Num{K: reflect.Int, U: 0}}, {"1", ref.Num{K: reflect.Int, U: 1}}, {"2", ref.Num{K: reflect.Int, U: 2}}, {"300", ref.Num{K: reflect.Int, U: 300}}, {"16777217", ref.Num{K: reflect.Int, U: 16777217}},
			{"0.5", ref.Num{K: reflect.Float64, F: 0.5}}, {"9007199254740993", ref.Num{K: reflect.Int, U: 9007199254740993}}} {
			sample := map[string]interface{}{"a": ga[0].GoValue()}
			cfg := conf.New(sample)
			for _, op := range ops {
				for _, flip := range []bool{false, true} {
					src, wit := "a "+op+" "+lit.text, fmt.Sprintf("%s %s literal %s", ka, op, lit.text)
					if flip {
						src, wit = lit.text+" "+op+" a", fmt.Sprintf("literal %s %s %s", lit.text, op, ka)
					}
					illTyped := op == "%" && (ref.KindFloat(ka) || ref.KindFloat(lit.n.K))
					for _, mode := range []string{"typed", "untyped"} {
						var prog *vm.Program
						var err error
						var pt reflect.Type
						if mode == "typed" {
							prog, err = expr.Compile(src, expr.Env(sample))
							if tree, perr := parser.Parse(src); perr == nil {
								pt, _ = checker.Check(tree, cfg)
							}
						} else {
							prog, err = expr.Compile(src)
						}
						progs++
						if err != nil {
							if !(illTyped && (mode == "typed" || ref.KindFloat(lit.n.K))) { // a float literal under % is a static mismatch without Env too
								order++
								r.Report(report.Violation{Sub: mode, Kind: "rejected", Witness: wit, Order: order, Detail: map[string]interface{}{"source": src, "error": err.Error()}})
							}
							continue
						}
						if mode == "typed" && illTyped {
							continue
						}
						for _, a := range ga {
							want := ref.Arith(op, a, lit.n)
							if flip {
								want = ref.Arith(op, lit.n, a)
							}
							check(mode, src, prog, map[string]interface{}{"a": a.GoValue()}, want, pt, wit, a.String())
						}
					}
				}
			}
		}
		for _, kb := range ref.Kinds {
			gb := c14Grid(kb)
			sample := map[string]interface{}{"a": ga[0].GoValue(), "b": gb[0].GoValue()}
			cfg := conf.New(sample)
			for _, op0 := range append(append([]string{}, ops...), "not <", "not <=", "not >", "not >=", "not ==", "! <", "! >=") {
				op := op0
				src := "a " + op + " b"
				wit := fmt.Sprintf("%s %s %s", ka, op, kb)
				negated := ""
				if f := strings.Fields(op0); len(f) == 2 {
					// the negation of a comparison is the negation of its value (NaN operands included)
					negated, op = f[0], f[1]
					src = negated + " (a " + op + " b)"
					if negated == "!" {
						src = "!(a " + op + " b)"
					}
				}
				for _, mode := range []string{"typed", "untyped"} {
					var prog *vm.Program
					var err error
					var pt reflect.Type
					if mode == "typed" {
						prog, err = expr.Compile(src, expr.Env(sample))
						tree, perr := parser.Parse(src)
						if perr == nil {
							pt, _ = checker.Check(tree, cfg)
						}
					} else {
						prog, err = expr.Compile(src)
					}
					progs++
					illTyped := op == "%" && (ref.KindFloat(ka) || ref.KindFloat(kb))
					if err != nil {
						if !(mode == "typed" && illTyped) {
							order++
							r.Report(report.Violation{Sub: mode, Kind: "rejected", Witness: wit, Order: order, Detail: map[string]interface{}{"source": src, "error": err.Error()}})
						}
						continue
					}
					if mode == "typed" && illTyped {
						order++
						r.Report(report.Violation{Sub: mode, Kind: "accepted-ill-typed", Witness: wit, Order: order, Detail: map[string]interface{}{"source": src}})
						continue
					}
					for _, a := range ga {
						for _, b := range gb {
							want := ref.Arith(op, a, b)
							if negated != "" {
								want.B = !want.B
							}
							check(mode, src, prog, map[string]interface{}{"a": a.GoValue(), "b": b.GoValue()}, want, pt, wit, a.String()+", "+b.String())
						}
					}
				}
			}
			if len(r.Cov) == 0 && ka == reflect.Uint8 && kb == reflect.Int16 {
				r.Sample(map[string]interface{}{"source": "a + b", "a": ga[4].String(), "b": gb[3].String(), "expected": ref.Arith("+", ga[4], gb[3]).String()})
			}
		}
	}
	// compound forms: the promotion rule applied twice (chains are evaluated left to right, never regrouped), under a
	// conditional (the value keeps the kind of the branch taken), next to a literal of the same value and another kind,
	// and against a sum with a literal (the specialised comparisons must agree with the generic one)
	one, three, zero := ref.Num{K: reflect.Int, U: 1}, ref.Num{K: reflect.Int, U: 3}, ref.Num{K: reflect.Int, U: 0}
	two, twoF := ref.Num{K: reflect.Int, U: 2}, ref.Num{K: reflect.Float64, F: 2}
	ar := func(op string, x, y ref.Num) ref.Out { return ref.Arith(op, x, y) }
	then := func(o ref.Out, f func(ref.Num) ref.Out) ref.Out {
		if o.Fail || o.IsBool {
			return ref.Out{Fail: true}
		}
		return f(o.N)
	}
	type form struct {
		src  string
		want func(a, b ref.Num, c bool) ref.Out
		cond bool
	}
	pick := func(a, b ref.Num, c bool) ref.Num {
		if c {
			return a
		}
		return b
	}
	forms := []form{
		{"a + 1 + 1", func(a, b ref.Num, c bool) ref.Out {
			return then(ar("+", a, one), func(x ref.Num) ref.Out { return ar("+", x, one) })
		}, false},
		{"a * 3 * 3", func(a, b ref.Num, c bool) ref.Out {
			return then(ar("*", a, three), func(x ref.Num) ref.Out { return ar("*", x, three) })
		}, false},
		{"a + b + 1", func(a, b ref.Num, c bool) ref.Out {
			return then(ar("+", a, b), func(x ref.Num) ref.Out { return ar("+", x, one) })
		}, false},
		{"1 + a + b", func(a, b ref.Num, c bool) ref.Out {
			return then(ar("+", one, a), func(x ref.Num) ref.Out { return ar("+", x, b) })
		}, false},
		{"-a * b", func(a, b ref.Num, c bool) ref.Out {
			x := ref.Num{K: a.K, U: ref.Wrap(a.K, -a.U)}
			if ref.KindFloat(a.K) {
				x = ref.Num{K: a.K, F: -a.F}
			}
			return ar("*", x, b)
		}, false},
		{"-a / b", func(a, b ref.Num, c bool) ref.Out {
			x := ref.Num{K: a.K, U: ref.Wrap(a.K, -a.U)}
			if ref.KindFloat(a.K) {
				x = ref.Num{K: a.K, F: -a.F}
			}
			return ar("/", x, b)
		}, false},
		{"a - 1 - b", func(a, b ref.Num, c bool) ref.Out {
			return then(ar("-", a, one), func(x ref.Num) ref.Out { return ar("-", x, b) })
		}, false},
		{"(c ? a : b) + 1", func(a, b ref.Num, c bool) ref.Out { return ar("+", pick(a, b, c), one) }, true},
		{"(c ? a : b) * b", func(a, b ref.Num, c bool) ref.Out { return ar("*", pick(a, b, c), b) }, true},
		{"-(c ? a : b)", func(a, b ref.Num, c bool) ref.Out {
			x := pick(a, b, c)
			if ref.KindFloat(x.K) {
				return ref.Out{N: ref.Num{K: x.K, F: -x.F}}
			}
			return ref.Out{N: ref.Num{K: x.K, U: ref.Wrap(x.K, -x.U)}}
		}, true},
		{"(c ? a : b) == a", func(a, b ref.Num, c bool) ref.Out { return ar("==", pick(a, b, c), a) }, true},
		{"(c ? a : b) < b", func(a, b ref.Num, c bool) ref.Out { return ar("<", pick(a, b, c), b) }, true},
		{"(c ? a : 1) == 1", func(a, b ref.Num, c bool) ref.Out { return ar("==", pick(a, one, c), one) }, true},
		{"a == b + 0", func(a, b ref.Num, c bool) ref.Out {
			return then(ar("+", b, zero), func(x ref.Num) ref.Out { return ar("==", a, x) })
		}, false},
		{"a == b * 1", func(a, b ref.Num, c bool) ref.Out {
			return then(ar("*", b, one), func(x ref.Num) ref.Out { return ar("==", a, x) })
		}, false},
		{"1 == b * 1", func(a, b ref.Num, c bool) ref.Out {
			return then(ar("*", b, one), func(x ref.Num) ref.Out { return ar("==", one, x) })
		}, false},
		{"a != b + 0", func(a, b ref.Num, c bool) ref.Out {
			return then(ar("+", b, zero), func(x ref.Num) ref.Out { return ar("!=", a, x) })
		}, false},
		{"a * 2 + b * 2.0", func(a, b ref.Num, c bool) ref.Out {
			return then(ar("*", a, two), func(x ref.Num) ref.Out {
				return then(ar("*", b, twoF), func(y ref.Num) ref.Out { return ar("+", x, y) })
			})
		}, false},
		{"b * 2.0 - a * 2", func(a, b ref.Num, c bool) ref.Out {
			return then(ar("*", b, twoF), func(x ref.Num) ref.Out {
				return then(ar("*", a, two), func(y ref.Num) ref.Out { return ar("-", x, y) })
			})
		}, false},
	}
	for _, ka := range ref.Kinds {
		ga := c14Grid(ka)
		for _, kb := range ref.Kinds {
			gb := c14Grid(kb)
			sample := map[string]interface{}{"a": ga[0].GoValue(), "b": gb[0].GoValue(), "c": true}
			for _, f := range forms {
				wit := fmt.Sprintf("%s with a %s, b %s", f.src, ka, kb)
				for _, mode := range []string{"typed", "untyped"} {
					var prog *vm.Program
					var err error
					var pt reflect.Type
					if mode == "typed" {
						prog, err = expr.Compile(f.src, expr.Env(sample))
						if tree, perr := parser.Parse(f.src); perr == nil && (!f.cond || ka == kb || f.src == "-(c ? a : b)") {
							// the checker's prediction is compared only where every operand is statically typed: a
							// conditional with branches of different kinds is dynamically typed
							pt, _ = checker.Check(tree, conf.New(sample))
						}
					} else {
						prog, err = expr.Compile(f.src)
					}
					progs++
					if err != nil {
						order++
						r.Report(report.Violation{Sub: mode, Kind: "rejected", Witness: wit, Order: order, Detail: map[string]interface{}{"source": f.src, "error": err.Error()}})
						continue
					}
					for _, a := range ga {
						for _, b := range gb {
							for _, c := range []bool{true, false} {
								if !f.cond && !c {
									continue
								}
								check(mode, f.src, prog, map[string]interface{}{"a": a.GoValue(), "b": b.GoValue(), "c": c}, f.want(a, b, c), pt, wit, fmt.Sprintf("%s, %s, c=%v", a, b, c))
							}
						}
					}
				}
			}
		}
	}
	r.Sample(map[string]interface{}{"source": "a / b", "a": "int8(-128)", "b": "uint16(65535)", "expected": ref.Arith("/", ref.Num{K: reflect.Int8, U: ref.Wrap(reflect.Int8, 0x80)}, ref.Num{K: reflect.Uint16, U: 65535}).String()})
	r.Sample(map[string]interface{}{"source": "a < b", "a": "uint8(200)", "b": "int8(-1)", "expected": ref.Arith("<", ref.Num{K: reflect.Uint8, U: 200}, ref.Num{K: reflect.Int8, U: ref.Wrap(reflect.Int8, 0xff)}).String()})
	r.Set("evaluations", evals)
	r.Set("programs", progs)
	r.Set("distinct_nontrivial", int64(len(outcomes)))
	r.Set("states", int64(len(outcomes)))
	r.Set("transitions", evals)
	r.Set("traces_validated_against_impl", evals)
	r.Set("rule", "all 12x12 ordered kind pairs x 12 binary operators (+ unary minus per kind) x full product of a boundary grid per kind (0, +-1, extrema, truncating and sign-changing bit patterns, non-representable floats) x {typed map env, no env}; every case run on the real Compile/Run; distinct_nontrivial/states = distinct result values (kind+bits) observed")
	r.Set("exhaustive", true)
	r.Assume("rank list: uint<uint8<uint16<uint32<uint64<int<int8<int16<int32<int64<float32<float64 (unsigned by width, signed by width, floats; platform-sized kinds first in their family, as checker.typeWeight and TestExpr agree)")
	r.Assume("values outside the grid are not explored (no random values: sampling is a different technique)")
	r.Assume("int/uint are 64-bit (amd64)")
}
