package main

import (
	"fmt"
	"math"
	"reflect"

	"github.com/antonmedv/expr"
	"github.com/antonmedv/expr/checker"
	"github.com/antonmedv/expr/conf"
	"github.com/antonmedv/expr/parser"
	"github.com/antonmedv/expr/vm"

	"verif/mc/report"
)

// C14: mixed-kind arithmetic follows one promotion rule. Fully exhaustive over
// 12x12 ordered kind pairs x operators x a boundary grid per kind, on the real
// Compile/Run, against an independent arithmetic model.

var c14Kinds = []reflect.Kind{reflect.Uint, reflect.Uint8, reflect.Uint16, reflect.Uint32, reflect.Uint64,
	reflect.Int, reflect.Int8, reflect.Int16, reflect.Int32, reflect.Int64, reflect.Float32, reflect.Float64}

func c14Rank(k reflect.Kind) int {
	for i, kk := range c14Kinds {
		if kk == k {
			return i
		}
	}
	return -1
}

// num is the model's number: a kind plus either integer bits (two's complement,
// extended to 64 bits according to the kind's signedness) or a float.
type num struct {
	k reflect.Kind
	u uint64  // integer kinds
	f float64 // float kinds (float32 values are exactly representable)
}

func kindBits(k reflect.Kind) uint {
	switch k {
	case reflect.Int8, reflect.Uint8:
		return 8
	case reflect.Int16, reflect.Uint16:
		return 16
	case reflect.Int32, reflect.Uint32, reflect.Float32:
		return 32
	}
	return 64
}
func kindSigned(k reflect.Kind) bool {
	switch k {
	case reflect.Int, reflect.Int8, reflect.Int16, reflect.Int32, reflect.Int64:
		return true
	}
	return false
}
func kindFloat(k reflect.Kind) bool { return k == reflect.Float32 || k == reflect.Float64 }

// wrap truncates bits to the width of k and re-extends.
func wrap(k reflect.Kind, bits uint64) uint64 {
	w := kindBits(k)
	if w == 64 {
		return bits
	}
	bits &= (1 << w) - 1
	if kindSigned(k) && bits&(1<<(w-1)) != 0 {
		bits |= ^uint64(0) << w
	}
	return bits
}

func (n num) conv(k reflect.Kind) num {
	if n.k == k {
		return n
	}
	if kindFloat(k) {
		var f float64
		if kindFloat(n.k) {
			f = n.f
		} else if kindSigned(n.k) {
			if k == reflect.Float32 {
				f = float64(float32(int64(n.u)))
			} else {
				f = float64(int64(n.u))
			}
		} else {
			if k == reflect.Float32 {
				f = float64(float32(n.u))
			} else {
				f = float64(n.u)
			}
		}
		if k == reflect.Float32 {
			f = float64(float32(f))
		}
		return num{k: k, f: f}
	}
	if kindFloat(n.k) {
		panic("model: float to integer conversion is never needed by the promotion rule")
	}
	return num{k: k, u: wrap(k, n.u)}
}

func (n num) toFloat64() float64 {
	if kindFloat(n.k) {
		return n.f
	}
	if kindSigned(n.k) {
		return float64(int64(n.u))
	}
	return float64(n.u)
}

func (n num) goValue() interface{} {
	switch n.k {
	case reflect.Uint:
		return uint(n.u)
	case reflect.Uint8:
		return uint8(n.u)
	case reflect.Uint16:
		return uint16(n.u)
	case reflect.Uint32:
		return uint32(n.u)
	case reflect.Uint64:
		return uint64(n.u)
	case reflect.Int:
		return int(n.u)
	case reflect.Int8:
		return int8(n.u)
	case reflect.Int16:
		return int16(n.u)
	case reflect.Int32:
		return int32(n.u)
	case reflect.Int64:
		return int64(n.u)
	case reflect.Float32:
		return float32(n.f)
	case reflect.Float64:
		return n.f
	}
	panic("kind")
}

func fromGo(v interface{}) (num, bool) {
	rv := reflect.ValueOf(v)
	switch rv.Kind() {
	case reflect.Uint, reflect.Uint8, reflect.Uint16, reflect.Uint32, reflect.Uint64:
		return num{k: rv.Kind(), u: rv.Uint()}, true
	case reflect.Int, reflect.Int8, reflect.Int16, reflect.Int32, reflect.Int64:
		return num{k: rv.Kind(), u: uint64(rv.Int())}, true
	case reflect.Float32, reflect.Float64:
		return num{k: rv.Kind(), f: rv.Float()}, true
	}
	return num{}, false
}

func (n num) String() string {
	if kindFloat(n.k) {
		return fmt.Sprintf("%s(%v)", n.k, n.f)
	}
	if kindSigned(n.k) {
		return fmt.Sprintf("%s(%d)", n.k, int64(n.u))
	}
	return fmt.Sprintf("%s(%d)", n.k, n.u)
}

func numEq(a, b num) bool {
	if a.k != b.k {
		return false
	}
	if kindFloat(a.k) {
		return math.Float64bits(a.f) == math.Float64bits(b.f) || (math.IsNaN(a.f) && math.IsNaN(b.f))
	}
	return a.u == b.u
}

// c14Model returns the expected result: either a number, a bool, or failure.
type c14Out struct {
	fail   bool
	isBool bool
	b      bool
	n      num
}

func (o c14Out) String() string {
	if o.fail {
		return "fail"
	}
	if o.isBool {
		return fmt.Sprint(o.b)
	}
	return o.n.String()
}

func c14Model(op string, a, b num) c14Out {
	if op == "**" {
		return c14Out{n: num{k: reflect.Float64, f: math.Pow(a.toFloat64(), b.toFloat64())}}
	}
	k := a.k
	if c14Rank(b.k) > c14Rank(a.k) {
		k = b.k
	}
	x, y := a.conv(k), b.conv(k)
	if kindFloat(k) {
		var f float64
		switch op {
		case "+":
			f = x.f + y.f
		case "-":
			f = x.f - y.f
		case "*":
			f = x.f * y.f
		case "/":
			f = x.f / y.f
		case "%":
			return c14Out{fail: true}
		case "==":
			return c14Out{isBool: true, b: x.f == y.f}
		case "!=":
			return c14Out{isBool: true, b: x.f != y.f}
		case "<":
			return c14Out{isBool: true, b: x.f < y.f}
		case "<=":
			return c14Out{isBool: true, b: x.f <= y.f}
		case ">":
			return c14Out{isBool: true, b: x.f > y.f}
		case ">=":
			return c14Out{isBool: true, b: x.f >= y.f}
		}
		if k == reflect.Float32 {
			f = float64(float32(f))
		}
		return c14Out{n: num{k: k, f: f}}
	}
	signed := kindSigned(k)
	less := func() bool {
		if signed {
			return int64(x.u) < int64(y.u)
		}
		return x.u < y.u
	}
	switch op {
	case "+":
		return c14Out{n: num{k: k, u: wrap(k, x.u+y.u)}}
	case "-":
		return c14Out{n: num{k: k, u: wrap(k, x.u-y.u)}}
	case "*":
		return c14Out{n: num{k: k, u: wrap(k, x.u*y.u)}}
	case "/", "%":
		if y.u == 0 {
			return c14Out{fail: true}
		}
		var q, r uint64
		if signed {
			xi, yi := int64(x.u), int64(y.u)
			if yi == -1 { // avoid the hardware trap; Go defines min / -1 == min, min % -1 == 0
				q, r = uint64(-xi), 0
			} else {
				q, r = uint64(xi/yi), uint64(xi%yi)
			}
		} else {
			q, r = x.u/y.u, x.u%y.u
		}
		if op == "/" {
			return c14Out{n: num{k: k, u: wrap(k, q)}}
		}
		return c14Out{n: num{k: k, u: wrap(k, r)}}
	case "==":
		return c14Out{isBool: true, b: x.u == y.u}
	case "!=":
		return c14Out{isBool: true, b: x.u != y.u}
	case "<":
		return c14Out{isBool: true, b: less()}
	case "<=":
		return c14Out{isBool: true, b: less() || x.u == y.u}
	case ">":
		return c14Out{isBool: true, b: !less() && x.u != y.u}
	case ">=":
		return c14Out{isBool: true, b: !less()}
	}
	panic("op " + op)
}

func c14Grid(k reflect.Kind) []num {
	if kindFloat(k) {
		fs := []float64{0, 1, -1, 1.5, -2.5, 16777217, 1e10, math.MaxFloat32, math.SmallestNonzeroFloat32, -0.0}
		if k == reflect.Float64 {
			fs = append(fs, math.MaxFloat64, math.SmallestNonzeroFloat64, 9007199254740993, 0.1)
		}
		var out []num
		seen := map[uint64]bool{}
		for _, f := range fs {
			if k == reflect.Float32 {
				f = float64(float32(f))
			}
			if seen[math.Float64bits(f)] {
				continue
			}
			seen[math.Float64bits(f)] = true
			out = append(out, num{k: k, f: f})
		}
		return out
	}
	w := kindBits(k)
	var raw []uint64
	if kindSigned(k) {
		min := uint64(1) << (w - 1)
		raw = []uint64{0, 1, ^uint64(0), min, min - 1, 0x123456789ABCDEF1, 0xFEDCBA9876543281, 3, ^uint64(0) - 6, 200, 70000}
	} else {
		raw = []uint64{0, 1, ^uint64(0), ^uint64(0) - 1, uint64(1) << (w - 1), 0x123456789ABCDEF1, 0xFEDCBA9876543281, 3, 7, 200, 70000}
	}
	var out []num
	seen := map[uint64]bool{}
	for _, b := range raw {
		b = wrap(k, b)
		if seen[b] {
			continue
		}
		seen[b] = true
		out = append(out, num{k: k, u: b})
	}
	return out
}

func init() { checks["C14"] = c14 }

func c14(r *report.Run) {
	ops := []string{"+", "-", "*", "/", "%", "==", "!=", "<", "<=", ">", ">=", "**"}
	var evals, progs int64
	outcomes := map[string]bool{}
	order := int64(0)
	check := func(mode, src string, prog *vm.Program, env interface{}, want c14Out, predicted reflect.Type, sigWitness, valDesc string) {
		order++
		out, err := vm.Run(prog, env)
		evals++
		got := c14Out{}
		if err != nil {
			got.fail = true
		} else if b, ok := out.(bool); ok {
			got.isBool, got.b = true, b
		} else if n, ok := fromGo(out); ok {
			got.n = n
		} else {
			got.fail = true
		}
		outcomes[got.String()] = true
		bad := ""
		switch {
		case got.fail != want.fail:
			bad = "failure"
		case got.fail:
		case got.isBool != want.isBool:
			bad = "kind"
		case got.isBool:
			if got.b != want.b {
				bad = "value"
			}
		case got.n.k != want.n.k:
			bad = "kind"
		case !numEq(got.n, want.n):
			bad = "value"
		}
		if bad == "" && !got.fail && predicted != nil && predicted.Kind() != reflect.Interface {
			gk := reflect.Bool
			if !got.isBool {
				gk = got.n.k
			}
			if predicted.Kind() != gk {
				bad = "checker-kind"
			}
		}
		if bad != "" {
			r.Report(report.Violation{Sub: mode, Kind: bad, Witness: sigWitness, Order: order,
				Detail: map[string]interface{}{"source": src, "values": valDesc, "expected": want.String(), "observed": got.String(), "checker_type": fmt.Sprint(predicted)}})
		}
	}
	for _, ka := range c14Kinds {
		ga := c14Grid(ka)
		// unary minus
		{
			sample := map[string]interface{}{"a": ga[0].goValue()}
			for _, mode := range []string{"typed", "untyped"} {
				var prog *vm.Program
				var err error
				var pt reflect.Type
				if mode == "typed" {
					prog, err = expr.Compile("-a", expr.Env(sample))
					tree, _ := parser.Parse("-a")
					pt, _ = checker.Check(tree, conf.New(sample))
				} else {
					prog, err = expr.Compile("-a")
				}
				progs++
				if err != nil {
					order++
					r.Report(report.Violation{Sub: mode, Kind: "rejected", Witness: fmt.Sprintf("-%s", ka), Order: order, Detail: map[string]interface{}{"error": err.Error()}})
					continue
				}
				for _, a := range ga {
					var want c14Out
					if kindFloat(ka) {
						want = c14Out{n: num{k: ka, f: -a.f}}
					} else {
						want = c14Out{n: num{k: ka, u: wrap(ka, -a.u)}}
					}
					check(mode, "-a", prog, map[string]interface{}{"a": a.goValue()}, want, pt, fmt.Sprintf("-%s", ka), a.String())
				}
			}
		}
		for _, kb := range c14Kinds {
			gb := c14Grid(kb)
			sample := map[string]interface{}{"a": ga[0].goValue(), "b": gb[0].goValue()}
			cfg := conf.New(sample)
			for _, op := range ops {
				src := "a " + op + " b"
				wit := fmt.Sprintf("%s %s %s", ka, op, kb)
				for _, mode := range []string{"typed", "untyped"} {
					var prog *vm.Program
					var err error
					var pt reflect.Type
					if mode == "typed" {
						prog, err = expr.Compile(src, expr.Env(sample))
						tree, perr := parser.Parse(src)
						if perr == nil {
							pt, _ = checker.Check(tree, cfg)
						}
					} else {
						prog, err = expr.Compile(src)
					}
					progs++
					illTyped := op == "%" && (kindFloat(ka) || kindFloat(kb))
					if err != nil {
						if !(mode == "typed" && illTyped) {
							order++
							r.Report(report.Violation{Sub: mode, Kind: "rejected", Witness: wit, Order: order, Detail: map[string]interface{}{"source": src, "error": err.Error()}})
						}
						continue
					}
					if mode == "typed" && illTyped {
						order++
						r.Report(report.Violation{Sub: mode, Kind: "accepted-ill-typed", Witness: wit, Order: order, Detail: map[string]interface{}{"source": src}})
						continue
					}
					for _, a := range ga {
						for _, b := range gb {
							want := c14Model(op, a, b)
							check(mode, src, prog, map[string]interface{}{"a": a.goValue(), "b": b.goValue()}, want, pt, wit, a.String()+", "+b.String())
						}
					}
				}
			}
			if len(r.Cov) == 0 && ka == reflect.Uint8 && kb == reflect.Int16 {
				r.Sample(map[string]interface{}{"source": "a + b", "a": ga[4].String(), "b": gb[3].String(), "expected": c14Model("+", ga[4], gb[3]).String()})
			}
		}
	}
	r.Sample(map[string]interface{}{"source": "a / b", "a": "int8(-128)", "b": "uint16(65535)", "expected": c14Model("/", num{k: reflect.Int8, u: wrap(reflect.Int8, 0x80)}, num{k: reflect.Uint16, u: 65535}).String()})
	r.Sample(map[string]interface{}{"source": "a < b", "a": "uint8(200)", "b": "int8(-1)", "expected": c14Model("<", num{k: reflect.Uint8, u: 200}, num{k: reflect.Int8, u: wrap(reflect.Int8, 0xff)}).String()})
	r.Set("evaluations", evals)
	r.Set("programs", progs)
	r.Set("distinct_nontrivial", int64(len(outcomes)))
	r.Set("states", int64(len(outcomes)))
	r.Set("transitions", evals)
	r.Set("traces_validated_against_impl", evals)
	r.Set("rule", "all 12x12 ordered kind pairs x 12 binary operators (+ unary minus per kind) x full product of a boundary grid per kind (0, +-1, extrema, truncating and sign-changing bit patterns, non-representable floats) x {typed map env, no env}; every case run on the real Compile/Run; distinct_nontrivial/states = distinct result values (kind+bits) observed")
	r.Set("exhaustive", true)
	r.Assume("rank list: uint<uint8<uint16<uint32<uint64<int<int8<int16<int32<int64<float32<float64 (unsigned by width, signed by width, floats; platform-sized kinds first in their family, as checker.typeWeight and TestExpr agree)")
	r.Assume("values outside the grid are not explored (no random values: sampling is a different technique)")
	r.Assume("int/uint are 64-bit (amd64)")
}
