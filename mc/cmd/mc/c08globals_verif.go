//go:build verif

package main

import (
	"github.com/antonmedv/expr"
	"github.com/antonmedv/expr/ast"
	"github.com/antonmedv/expr/checker"
	"github.com/antonmedv/expr/compiler"
	"github.com/antonmedv/expr/conf"
	"github.com/antonmedv/expr/docgen"
	"github.com/antonmedv/expr/file"
	"github.com/antonmedv/expr/optimizer"
	"github.com/antonmedv/expr/parser"
	"github.com/antonmedv/expr/parser/lexer"
	"github.com/antonmedv/expr/verifseam"
	"github.com/antonmedv/expr/vm"

	"verif/mc/snap"
)

// In the overlay build every library package exports the addresses of its package-level
// variables (generated from the sources under test, so a variable added by a later change
// is included automatically).
func init() {
	verifseam.PointHook = c08PointHook
	c08PointsAvailable = true
	globalsSnap = func() string {
		return snap.String(map[string]interface{}{
			"expr": expr.VerifGlobalsOfExpr(), "ast": ast.VerifGlobalsOfAst(), "checker": checker.VerifGlobalsOfChecker(),
			"compiler": compiler.VerifGlobalsOfCompiler(), "conf": conf.VerifGlobalsOfConf(), "docgen": docgen.VerifGlobalsOfDocgen(),
			"file": file.VerifGlobalsOfFile(), "optimizer": optimizer.VerifGlobalsOfOptimizer(), "parser": parser.VerifGlobalsOfParser(),
			"lexer": lexer.VerifGlobalsOfLexer(), "vm": vm.VerifGlobalsOfVm(),
		})
	}
}
