package main

import (
	"bytes"
	"fmt"
	"os"
	"os/exec"
	"strings"
	"sync"
	"sync/atomic"
	"syscall"
	"time"

	"github.com/antonmedv/expr"
	"github.com/antonmedv/expr/ast"
	"github.com/antonmedv/expr/docgen"
	"github.com/antonmedv/expr/parser"
	"github.com/antonmedv/expr/vm"

	"verif/mc/gen"
	"verif/mc/guard"
	"verif/mc/henv"
	"verif/mc/par"
	"verif/mc/report"
)

// C04: failures are returned as errors, never as panics. Exhaustive enumeration of
// (a) all byte strings up to a length over a 36-byte alphabet through Parse/Eval/Compile,
// (b) all token sequences up to a length through Compile+Run, (c) programs and
// single-fault mutants x option sets within deviation bound 2 x hostile run
// environments, (d) 64 KiB stress shapes in a crash-contained subprocess.

type c04Outcome struct {
	panicked bool
	msg      string
}

func c04Try(f func()) (o c04Outcome) {
	defer func() {
		if r := recover(); r != nil {
			o = c04Outcome{true, fmt.Sprint(r)}
		}
	}()
	f()
	return
}

// c04Program exercises a compiled program: it must be usable.
func c04UseProgram(p *vm.Program, env interface{}) string {
	if p == nil {
		return "nil program without error"
	}
	if o := c04Try(func() { _ = p.Disassemble() }); o.panicked {
		return "Disassemble panics: " + o.msg
	}
	var out interface{}
	var err error
	if o := c04Try(func() { out, err = expr.Run(p, env) }); o.panicked {
		return "Run panics: " + o.msg
	}
	if err != nil && out != nil {
		return "Run returns a value together with an error"
	}
	return ""
}

// c04All runs one source text through Parse, Eval and Compile(+Run).
func c04All(src string, env interface{}, ops []expr.Option) (kind, what string) {
	var tree *parser.Tree
	var err error
	if o := c04Try(func() { tree, err = parser.Parse(src) }); o.panicked {
		return "Parse-panics", o.msg
	}
	if err != nil && tree != nil {
		return "Parse-returns-tree-with-error", err.Error()
	}
	if err == nil && tree == nil {
		return "Parse-returns-nothing", ""
	}
	var out interface{}
	if o := c04Try(func() { out, err = expr.Eval(src, env) }); o.panicked {
		return "Eval-panics", o.msg
	}
	if err != nil && out != nil {
		return "Eval-returns-value-with-error", err.Error()
	}
	var p *vm.Program
	if o := c04Try(func() { p, err = expr.Compile(src, ops...) }); o.panicked {
		return "Compile-panics", o.msg
	}
	if err != nil && p != nil {
		return "Compile-returns-program-with-error", err.Error()
	}
	if err == nil {
		if s := c04UseProgram(p, env); s != "" {
			return "program-not-usable", s
		}
	}
	return "", ""
}

var c04Bytes = []byte{'a', 'n', 'i', '_', '$', '0', '1', 'x', 'e', '.', '"', '\'', '\\', '(', ')', '[', ']', '{', '}', '+', '-', '*', '/', '%', '!', '=', '<', '&', '|', '?', ':', ',', '#', ' ', '\n', '\r', 0xC3, 0xA9, 0xFF}

// ---- option menu ----

type c04Opt struct {
	name string
	mk   func() expr.Option
}

type c04ReplaceVisitor struct{ with func() ast.Node }

func (v *c04ReplaceVisitor) Enter(*ast.Node) {}
func (v *c04ReplaceVisitor) Exit(n *ast.Node) {
	if _, ok := (*n).(*ast.IntegerNode); ok {
		*n = v.with()
	}
}

type c04Foreign struct{ ast.NilNode }

type c04PanicVisitor struct{}

func (c04PanicVisitor) Enter(*ast.Node) {}
func (c04PanicVisitor) Exit(n *ast.Node) {
	if _, ok := (*n).(*ast.StringNode); ok {
		panic("visitor panics")
	}
}

var c04MapEnv = func() map[string]interface{} {
	m := henv.AsMap(henv.MakeFull(henv.Val{}))
	m["NilMember"] = nil
	return m
}()

func c04Menu() []c04Opt {
	patch := func(name string, with func() ast.Node) c04Opt {
		return c04Opt{"Patch(" + name + ")", func() expr.Option { return expr.Patch(&c04ReplaceVisitor{with}) }}
	}
	return []c04Opt{
		{"Env(struct)", func() expr.Option { return expr.Env(henv.Env{}) }},
		{"Env(map)", func() expr.Option { return expr.Env(c04MapEnv) }},
		{"Env(nil)", func() expr.Option { return expr.Env(nil) }},
		{"Env(int)", func() expr.Option { return expr.Env(5) }},
		{"AllowUndefinedVariables", func() expr.Option { return expr.AllowUndefinedVariables() }},
		{"Optimize(false)", func() expr.Option { return expr.Optimize(false) }},
		{"AsBool", func() expr.Option { return expr.AsBool() }},
		{"AsInt64", func() expr.Option { return expr.AsInt64() }},
		{"AsFloat64", func() expr.Option { return expr.AsFloat64() }},
		{"Operator(+,Add)", func() expr.Option { return expr.Operator("+", "Add") }},
		{"Operator(+,I)", func() expr.Option { return expr.Operator("+", "I") }},
		{"Operator(+,Missing)", func() expr.Option { return expr.Operator("+", "Missing") }},
		{"Operator(==,NilMember)", func() expr.Option { return expr.Operator("==", "NilMember") }},
		{"Operator(+,Sum)", func() expr.Option { return expr.Operator("+", "Sum") }},
		{"ConstExpr(Add)", func() expr.Option { return expr.ConstExpr("Add") }},
		{"ConstExpr(Missing)", func() expr.Option { return expr.ConstExpr("Missing") }},
		{"ConstExpr(I)", func() expr.Option { return expr.ConstExpr("I") }},
		{"ConstExpr(Boom)", func() expr.Option { return expr.ConstExpr("Boom") }},
		patch("ConstantNode", func() ast.Node { return &ast.ConstantNode{Value: 7} }),
		patch("ConstantNode(nil)", func() ast.Node { return &ast.ConstantNode{Value: nil} }),
		patch("StringNode", func() ast.Node { return &ast.StringNode{Value: "p"} }),
		patch("nil", func() ast.Node { return nil }),
		patch("foreign node", func() ast.Node { return &c04Foreign{} }),
		patch("PairNode", func() ast.Node { return &ast.PairNode{Key: &ast.StringNode{Value: "k"}, Value: &ast.NilNode{}} }),
		patch("ClosureNode", func() ast.Node { return &ast.ClosureNode{Node: &ast.PointerNode{}} }),
		patch("BuiltinNode(no args)", func() ast.Node { return &ast.BuiltinNode{Name: "len"} }),
		{"Patch(panicking visitor)", func() expr.Option { return expr.Patch(c04PanicVisitor{}) }},
	}
}

type c04WrongShape struct{ X int }

func c04RunEnvs() map[string]interface{} {
	full := henv.MakeFull(henv.Val{})
	zero := henv.Env{}
	return map[string]interface{}{
		"matching": *full, "nil": nil, "int": 5, "wrong-struct": c04WrongShape{1}, "map[string]int": map[string]int{"I": 1},
		"nil-members": zero, "map": henv.AsMap(full), "ptr": full, "nil-ptr": (*henv.Env)(nil),
	}
}

func init() { checks["C04"] = c04 }

func c04(r *report.Run) {
	if len(os.Args) > 3 && os.Args[3] == "stress-child" {
		c04StressChild()
		return
	}
	guard.Start(r)
	var evals int64
	distinctErr := map[string]bool{}
	var mu sync.Mutex
	note := func(e error) {
		if e == nil {
			return
		}
		s := e.Error()
		if len(s) > 24 {
			s = s[:24]
		}
		mu.Lock()
		if len(distinctErr) < 5000 {
			distinctErr[s] = true
		}
		mu.Unlock()
	}
	_ = note
	rep := func(sub, kind, witness, what string, order int64, src string) {
		r.Report(report.Violation{Sub: sub, Kind: kind, Witness: witness, Order: order, Detail: map[string]interface{}{"source": src, "what": what}})
	}
	// (a) byte strings
	maxLen := 3
	if r.Tier == "thorough" {
		maxLen = 4
	}
	nb := len(c04Bytes)
	full := *henv.MakeFull(henv.Val{})
	order := int64(0)
	for L := 0; L <= maxLen; L++ {
		total := 1
		for i := 0; i < L; i++ {
			total *= nb
		}
		base := order
		par.ForW(total, func(w, i int) {
			b := make([]byte, L)
			x := i
			for k := L - 1; k >= 0; k-- {
				b[k] = c04Bytes[x%nb]
				x /= nb
			}
			src := string(b)
			guard.Enter(w, fmt.Sprintf("bytes %q", src))
			defer guard.Leave(w)
			atomic.AddInt64(&evals, 3)
			if kind, what := c04All(src, full, []expr.Option{expr.Env(henv.Env{})}); kind != "" {
				rep("bytes", kind, fmt.Sprintf("%q", src), what, base+int64(i), src)
			}
		})
		order += int64(total)
	}
	// literals that end inside an escape sequence, numbers that end inside an exponent, ... (every prefix of valid literals)
	var prefixes []string
	for _, lit := range []string{`"\x41"`, `'\u00e9'`, `"\U0001F600"`, `"\101"`, `"a\n"`, `0x1F`, `1.5e+10`, `1_000`, `.5e-3`, `"é😀"`, `a?.b`, `not in`, `1..2`, `a ?: b`, `{a: 1}`, `all(a, {#})`} {
		for _, q := range []string{"", " ", "(", "[", "a + ", "f(", "{a: "} {
			rs := []byte(lit)
			for k := 1; k <= len(rs); k++ {
				prefixes = append(prefixes, q+string(rs[:k]), q+string(rs[:k])+string(rs[0]))
			}
		}
	}
	base := order
	par.ForW(len(prefixes), func(w, i int) {
		src := prefixes[i]
		guard.Enter(w, fmt.Sprintf("prefix %q", src))
		defer guard.Leave(w)
		atomic.AddInt64(&evals, 3)
		if kind, what := c04All(src, full, []expr.Option{expr.Env(henv.Env{})}); kind != "" {
			rep("literal-prefix", kind, fmt.Sprintf("%q", src), what, base+int64(i), src)
		}
	})
	order += int64(len(prefixes))
	r.Set("literal_prefixes", len(prefixes))
	// (a') all strings of <= 4 RUNES over an alphabet with 2-, 3- and 4-byte runes next to the characters that start
	// numbers, strings and operators (look-ahead and push-back over multi-byte runes)
	runeAlpha := []rune{'1', '.', 'e', 'x', '_', 'a', '"', '\\', '+', '!', '(', ' ', 'é', '€', '😀', '\u00a0'}
	maxR := 4
	if r.Tier == "thorough" {
		maxR = 5
	}
	for L := 1; L <= maxR; L++ {
		total := 1
		for i := 0; i < L; i++ {
			total *= len(runeAlpha)
		}
		base := order
		par.ForW(total, func(w, i int) {
			b := make([]rune, L)
			x := i
			for k := L - 1; k >= 0; k-- {
				b[k] = runeAlpha[x%len(runeAlpha)]
				x /= len(runeAlpha)
			}
			src := string(b)
			guard.Enter(w, fmt.Sprintf("runes %q", src))
			defer guard.Leave(w)
			atomic.AddInt64(&evals, 3)
			if kind, what := c04All(src, full, []expr.Option{expr.Env(henv.Env{})}); kind != "" {
				rep("runes", kind, fmt.Sprintf("%q", src), what, base+int64(i), src)
			}
		})
		order += int64(total)
	}
	// (a'') one token of every length 1..400 (ASCII, 2-, 3- and 4-byte letters) in positions where the error message quotes it
	var longs []string
	for _, unit := range []string{"a", "ж", "日", "😀"} {
		for n := 1; n <= 400; n++ {
			tok := strings.Repeat(unit, n)
			if unit == "😀" {
				longs = append(longs, "1 \""+tok+"\"", "{\""+tok+"\" 1}", "S matches \"("+tok+"\"")
				continue
			}
			longs = append(longs, "1 "+tok, "1 \""+tok+"\"", "{"+tok+"+: 1}", "S matches \"("+tok+"\"", tok+"."+tok+"(", "I."+tok)
		}
	}
	base = order
	par.ForW(len(longs), func(w, i int) {
		src := longs[i]
		guard.Enter(w, fmt.Sprintf("long token %d", i))
		defer guard.Leave(w)
		atomic.AddInt64(&evals, 3)
		if kind, what := c04All(src, full, []expr.Option{expr.Env(henv.Env{})}); kind != "" {
			w := src
			if len(w) > 40 {
				w = w[:40] + "..."
			}
			rep("long-token", kind, fmt.Sprintf("%q x%d runes", w, len([]rune(src))), what, base+int64(i), src)
		}
	})
	order += int64(len(longs))
	r.Set("long_token_sources", len(longs))
	r.Set("byte_string_length_completed", maxLen)
	// (b) token sequences
	toks := []string{"a", "I", "A", "O", "1", `"s"`, `""`, "matches", "S", "nil", "not", "-", "*", "and", "==", "in", "..", "?", ":", "(", ")", ".", "?.", "[", "]", ",", "{", "}", "#", "all", "len", "Id", "N"}
	maxT := 3
	if r.Tier == "thorough" {
		maxT = 4
	}
	nt := len(toks)
	for L := 1; L <= maxT; L++ {
		total := 1
		for i := 0; i < L; i++ {
			total *= nt
		}
		base := order
		par.ForW(total, func(w, i int) {
			parts := make([]string, L)
			x := i
			for k := L - 1; k >= 0; k-- {
				parts[k] = toks[x%nt]
				x /= nt
			}
			src := strings.Join(parts, " ")
			guard.Enter(w, "tokens "+src)
			defer guard.Leave(w)
			atomic.AddInt64(&evals, 3)
			if kind, what := c04All(src, full, []expr.Option{expr.Env(henv.Env{})}); kind != "" {
				rep("tokens", kind, src, what, base+int64(i), src)
			}
		})
		order += int64(total)
	}
	r.Set("token_sequence_length_completed", maxT)
	// (c) programs and mutants x option sets (deviation bound 2) x run environments
	menu := c04Menu()
	var progs []string
	seen := map[string]bool{}
	addProg := func(s string) {
		if !seen[s] {
			seen[s] = true
			progs = append(progs, s)
		}
	}
	nProg := 3
	if r.Tier == "thorough" {
		nProg = 4
	}
	for _, sl := range []*slice{sliceControl(), sliceScalar(), sliceAccess(), sliceLoops(), sliceOptim()} {
		for n := 1; n <= nProg; n++ {
			for _, top := range sl.tops {
				sp := sl.g.Space(top, n)
				step := int64(1)
				cap := int64(25)
				if r.Tier == "thorough" {
					cap = 400
				}
				if sp.Total > cap {
					step = sp.Total / cap // a fixed, deterministic stride (every expression at the smaller sizes)
				}
				for i := int64(0); i < sp.Total; i += step {
					e := sp.At(i)
					addProg(e.String())
					if n <= 2 || (r.Tier == "thorough" && n <= 3) {
						for _, mu := range c03Mutants(e) {
							addProg(mu.e.String())
						}
					}
				}
			}
		}
	}
	for _, s := range []string{"nil", "", " ", "1 +", `"a" + 1`, "Add(1, 2) + 1", `Cat("a", "b")`, "1 == 2", "I + I", "Boom(1)", "FnInc(1)", "O.Get()", "P.Get()", "M.a", "[1, 2][5]", "1 / 0", "map(A, {Boom(#)})", "NilMember == 1", "Missing(1)", "PI", "PS", "[PI][0]", "B ? PI : PS", "P", "O.Next", "{a: PI}.a", "{a: 1}.a", "1..3", "len(1..1000000)",
		"all(1..3, {any([1, 2, 3], {# == 1})})", "count(A, {none(1..5, {# == 3})})", "map(A, {all(1..3, {# > 5})})", "filter(OS, {any(A, {# > 1})})", "one(1..3, {all([1, 2], {# == 1}) or any(A, {# == 2})})", "any(A, {none(A, {# == 1})})"} {
		addProg(s)
	}
	var sets [][]int
	sets = append(sets, []int{})
	for i := range menu {
		sets = append(sets, []int{i})
	}
	for i := range menu {
		for j := range menu {
			if i != j && (i < j || strings.HasPrefix(menu[i].name, "ConstExpr") || strings.HasPrefix(menu[j].name, "ConstExpr")) {
				sets = append(sets, []int{i, j}) // order matters for ConstExpr before/after Env
			}
		}
	}
	runEnvs := c04RunEnvs()
	var envNames []string
	for k := range runEnvs {
		envNames = append(envNames, k)
	}
	base = order
	var optCases int64
	par.ForW(len(progs), func(w, pi int) {
		src := progs[pi]
		for si, set := range sets {
			var names []string
			for _, k := range set {
				names = append(names, menu[k].name)
			}
			desc := strings.Join(names, " + ")
			guard.Enter(w, fmt.Sprintf("%q with %s", src, desc))
			var ops []expr.Option
			var p *vm.Program
			var err error
			// building the options is part of the API surface too
			o := c04Try(func() {
				for _, k := range set {
					ops = append(ops, menu[k].mk())
				}
				p, err = expr.Compile(src, ops...)
			})
			atomic.AddInt64(&evals, 1)
			atomic.AddInt64(&optCases, 1)
			userPanic := strings.Contains(desc, "panicking visitor") && o.panicked && o.msg == "visitor panics"
			switch {
			case o.panicked && !userPanic:
				rep("options", "Compile-panics", desc, o.msg, base+int64(pi)*10000+int64(si), src)
			case !o.panicked && err != nil && p != nil:
				rep("options", "Compile-returns-program-with-error", desc, err.Error(), base+int64(pi)*10000+int64(si), src)
			case !o.panicked && err == nil:
				for _, en := range envNames {
					atomic.AddInt64(&evals, 1)
					if s := c04UseProgram(p, runEnvs[en]); s != "" {
						rep("options", "program-not-usable", desc+" run on "+en, s, base+int64(pi)*10000+int64(si), src)
					}
				}
			}
			guard.Leave(w)
		}
	})
	order += int64(len(progs)) * 10000
	// Run(nil, env) and Eval with an Option as environment
	if o := c04Try(func() {
		if _, err := expr.Run(nil, full); err == nil {
			rep("api", "Run-nil-program-succeeds", "Run(nil, env)", "", order, "")
		}
	}); o.panicked {
		rep("api", "Run-panics", "Run(nil, env)", o.msg, order, "")
	}
	// (c') sequences: a run that fails must leave the process usable. Each failing run (malformed dynamic pattern,
	// failing function, index out of range, budget) is followed by an ordinary run of the same and of another program;
	// the follow-up must RETURN (a lock or channel left behind by the failed run would block it for ever: the
	// follow-up gets 120 s of wall-clock time for microseconds of work).
	{
		type step struct {
			src string
			set func(e *henv.Env)
		}
		bad := []step{
			{"S matches T", func(e *henv.Env) { e.T = "a(b" }}, {`S matches (T + "(")`, func(e *henv.Env) {}}, {"any(SA, {# matches T})", func(e *henv.Env) { e.T = "[" }},
			{"Boom(I)", func(e *henv.Env) {}}, {"A[I + 9]", func(e *henv.Env) {}}, {"map(A, {Boom(#)})", func(e *henv.Env) {}}, {"len(1..I) + len(0..2000000)", func(e *henv.Env) {}},
			{"O.Next.Next.N", func(e *henv.Env) {}}, {"1 % (I - I)", func(e *henv.Env) {}}, {`S matches T and Boom(1) > 0`, func(e *henv.Env) { e.T = "a" }},
		}
		good := []step{
			{"S matches T", func(e *henv.Env) { e.T = "a" }}, {"any(SA, {# matches T})", func(e *henv.Env) { e.T = "b" }}, {`S matches "a"`, func(e *henv.Env) {}},
			{"Id(I) + len(A)", func(e *henv.Env) {}}, {"map(A, {# + I})", func(e *henv.Env) {}}, {"len(1..I)", func(e *henv.Env) {}},
		}
		var seqs int64
		stuck := false
		for bi, b := range bad {
			for gi, g := range good {
				if stuck {
					break // whatever blocks the process blocks every later sequence too
				}
				done := make(chan string, 1)
				go func() {
					defer func() {
						if p := recover(); p != nil {
							done <- fmt.Sprint("PANIC ", p)
						}
					}()
					for _, st := range []step{b, g} {
						env := henv.MakeFull(henv.Val{})
						st.set(env)
						for _, viaEval := range []bool{false, true} {
							if viaEval {
								expr.Eval(st.src, *env)
							} else if p, err := expr.Compile(st.src, expr.Env(henv.Env{})); err == nil {
								expr.Run(p, *env)
							}
						}
					}
					done <- ""
				}()
				atomic.AddInt64(&evals, 4)
				seqs++
				select {
				case msg := <-done:
					if msg != "" {
						rep("sequence", "run-panics-after-a-failed-run", b.src+" ; "+g.src, msg, order+int64(bi*10+gi), b.src)
					}
				case <-time.After(120 * time.Second):
					rep("sequence", "run-never-returns-after-a-failed-run", b.src+" ; "+g.src, "the follow-up run did not return within 120 s", order+int64(bi*10+gi), b.src)
					stuck = true
				}
			}
		}
		order += 1000
		r.Set("failed_run_then_run_sequences", seqs)
	}
	// (d) stress shapes in a subprocess
	stress := c04Stress(r, order+1)
	r.Sample(map[string]interface{}{"bytes": "\"\\xff(", "through": "Parse, Eval, Compile+Run"})
	r.Sample(map[string]interface{}{"program": "Add(1, 2) + 1", "options": "ConstExpr(Missing) + Env(struct)", "run_envs": envNames})
	r.Set("programs", len(progs))
	r.Set("option_sets", len(sets))
	r.Set("option_cases", optCases)
	r.Set("run_environments", len(runEnvs))
	r.Set("stress_shapes", stress)
	r.Set("evaluations", evals)
	r.Set("states", evals)
	r.Set("transitions", evals)
	r.Set("traces_validated_against_impl", evals)
	r.Set("distinct_nontrivial", int64(len(progs)*len(sets)))
	if _, ok := r.Cov["exhaustive"]; !ok {
		r.Set("exhaustive", true)
	}
	r.Set("rule", "(a) every byte string of <= L bytes over a 38-byte alphabet (one byte per token class, both quotes, backslash, digits, x e . _ $, brackets, operators, space, newline, the two bytes of 'é', the invalid byte 0xFF) through Parse, Eval and Compile+Run+Disassemble; (b) every sequence of <= T tokens over a 30-token alphabet; (c) programs and single-fault mutants x every option set within deviation bound 2 of the default (27 options: Env shapes, AllowUndefinedVariables, Optimize, As*, well-/ill-shaped Operator, ConstExpr present/missing/non-function/panicking, Patch visitors replacing a node by each node kind, nil, a foreign node, a panicking visitor) x 9 run environments (matching, nil, wrong shapes, nil members, nil pointer); (d) 64 KiB stress shapes in a subprocess")
	r.Assume("a panic raised by a user-supplied visitor itself is the user's (only the string 'visitor panics' is exempted)")
	r.Assume("byte strings between the enumerated length and 64 KiB are covered only by the fixed stress family; no coverage-guided mutation (a different technique)")
}

// ---- (d) stress shapes, crash contained ----

func c04Shapes() map[string]string {
	rep := func(unit string, n int) string { return strings.Repeat(unit, n/len(unit)) }
	const K = 65536
	m := map[string]string{
		"open-parens":        rep("(", K),
		"balanced-parens":    rep("(", K/2-1) + "1" + rep(")", K/2-1),
		"open-brackets":      rep("[", K),
		"balanced-brackets":  rep("[", K/2-1) + "1" + rep("]", K/2-1),
		"open-braces":        rep("{a:", K),
		"unary-minus":        rep("-", K-1) + "1",
		"unary-not":          rep("not ", K-4) + "true",
		"postfix-index":      "A" + rep("[0]", K-4),
		"postfix-prop":       "O" + rep(".Next", K-5),
		"postfix-nilsafe":    "O" + rep("?.Next", K-6),
		"ternary-chain":      rep("B ? 1 : ", K-8) + "2",
		"binary-chain":       rep("1 + ", K-4) + "1",
		"and-chain":          rep("B and ", K-8) + "B",
		"pow-chain":          rep("1 ** ", K-8) + "1",
		"closure-nest":       rep("all(A, {", K/3) + "true" + rep("})", K/3/4),
		"closure-nest-ok":    rep("all(A, {", 8000) + "true" + rep("})", 8000),
		"string-64k":         `"` + rep("a", K-2) + `"`,
		"escape-64k":         `"` + rep(`\n`, K-2) + `"`,
		"ident-64k":          rep("a", K),
		"digits-64k":         rep("9", K),
		"dots":               rep(".", K),
		"hashes":             rep("#", K),
		"question-marks":     rep("?", K),
		"commas-in-call":     "Sum(" + rep("1,", K-8) + "1)",
		"array-64k":          "[" + rep("1,", K-4) + "1]",
		"map-64k":            "{" + rep("a:1,", K-8) + "a:1}",
		"invalid-utf8":       rep("\xff", K),
		"newlines":           rep("\n", K-1) + "1",
		"const-ranges-1e6":   "[" + rep("0..999999,", 6500*10) + "1]",
		"overloaded-chain":   rep("I + ", 400) + "I", // compiled with Operator("+", "Add"): checking must stay polynomial
		"overloaded-chain-s": rep("S + ", 200) + "S",
		"nested-calls":       rep("Id(", 20000) + "1" + rep(")", 20000/3),
		"nested-calls-ok":    rep("Id(", 5000) + "1" + rep(")", 5000),
	}
	// moderate nesting (depth 60) of every nesting construct, under every option set of c04DepthOptions: work that is
	// polynomial in the depth finishes at once, work that doubles per level does not finish at all
	for name, unit := range map[string][2]string{
		"calls": {"Id(", ")"}, "calls2": {"Add(1, ", ")"}, "methods": {"O.Plus(", ")"}, "index": {"A[", "]"}, "ternary": {"(B ? 1 : ", ")"}, "arrays": {"[", "]"},
		"closures": {"count([2], {# > ", "})"}, "unary": {"-(", ")"}, "parens-sum": {"(1 + ", ")"}, "len": {"len([", "])"}, "maps": {"{a: ", "}"}, "fast": {"Fast(", ")"},
	} {
		for opt := range c04DepthOptions {
			m[fmt.Sprintf("depth60:%s:%s", name, opt)] = strings.Repeat(unit[0], 60) + "1" + strings.Repeat(unit[1], 60)
		}
	}
	// environment types that refer to themselves (embedded pointer to the own type, mutual embedding, recursive members):
	// run in a child, because unbounded recursion over such a type is a stack overflow that no recover can catch
	for k := range c04RecursiveEnvCases {
		m[fmt.Sprintf("recursive-env:%02d", k)] = c04RecursiveEnvCases[k].src
	}
	return m
}

type c04SelfT struct {
	*c04SelfT
	V int
}
type c04MutA struct {
	*c04MutB
	X int
}
type c04MutB struct {
	*c04MutA
	Y int
}
type c04List struct {
	Next *c04List
	V    int
}
type c04Tree struct {
	Kids []c04Tree
	M    map[string]*c04Tree
	V    int
}
type c04RecHolder struct {
	N *c04SelfT
	M *c04MutA
	L c04List
	T c04Tree
}

func (c04SelfT) Twice() int { return 2 }

var c04RecursiveEnvCases = []struct {
	src string
	env func() interface{}
}{
	{"V + 1", func() interface{} { return c04SelfT{V: 1} }}, {"V + Twice()", func() interface{} { return &c04SelfT{V: 1} }}, {"Zz", func() interface{} { return c04SelfT{} }},
	{"X + Y", func() interface{} { return c04MutA{} }}, {"Zz()", func() interface{} { return &c04MutA{} }},
	{"N.V + 1", func() interface{} { return c04RecHolder{} }}, {"N.Zz", func() interface{} { return c04RecHolder{} }}, {"N.Zz()", func() interface{} { return c04RecHolder{} }}, {"N.Twice()", func() interface{} { return c04RecHolder{N: &c04SelfT{}} }},
	{"M.Y + M.X", func() interface{} { return c04RecHolder{} }}, {"M.Zz()", func() interface{} { return c04RecHolder{} }}, {"M.Zz", func() interface{} { return c04RecHolder{M: &c04MutA{}} }},
	{"L.Next.Next.V", func() interface{} { return c04RecHolder{} }}, {"L.Next.Zz", func() interface{} { return c04RecHolder{} }}, {"L.Next?.Next?.V", func() interface{} { return c04RecHolder{} }},
	{"T.Kids[0].Kids", func() interface{} { return c04RecHolder{} }}, {`T.M["a"].M["b"].V`, func() interface{} { return c04RecHolder{} }}, {"len(T.Kids) + T.Zz", func() interface{} { return c04RecHolder{} }},
	{"all(T.Kids, {len(#.Kids) == 0})", func() interface{} { return c04RecHolder{T: c04Tree{Kids: []c04Tree{{}, {}}}} }},
}

var c04DepthOptions = map[string]func() []expr.Option{
	"env":       func() []expr.Option { return []expr.Option{expr.Env(henv.Env{})} },
	"env+undef": func() []expr.Option { return []expr.Option{expr.Env(henv.Env{}), expr.AllowUndefinedVariables()} },
	"map+undef": func() []expr.Option {
		return []expr.Option{expr.Env(henv.AsMap(henv.MakeFull(henv.Val{}))), expr.AllowUndefinedVariables()}
	},
	"env+noopt":    func() []expr.Option { return []expr.Option{expr.Env(henv.Env{}), expr.Optimize(false)} },
	"env+operator": func() []expr.Option { return []expr.Option{expr.Env(henv.Env{}), expr.Operator("+", "OpAdd", "OpCat")} },
	"env+patch":    func() []expr.Option { return []expr.Option{expr.Env(henv.Env{}), expr.Patch(c04NopVisitor{})} },
	"noenv":        func() []expr.Option { return nil },
}

type c04NopVisitor struct{}

func (c04NopVisitor) Enter(*ast.Node) {}
func (c04NopVisitor) Exit(*ast.Node)  {}

func c04StressChild() {
	// contain memory: an allocation beyond the limit kills this child, not the sandbox
	lim := &syscall.Rlimit{Cur: 12 << 30, Max: 12 << 30}
	syscall.Setrlimit(syscall.RLIMIT_AS, lim)
	shape := os.Args[4]
	src := c04Shapes()[shape]
	full := *henv.MakeFull(henv.Val{})
	ops := []expr.Option{expr.Env(henv.Env{})}
	if strings.HasPrefix(shape, "overloaded") {
		ops = append(ops, expr.Operator("+", "Add", "Cat"))
	}
	if f := strings.Split(shape, ":"); len(f) == 3 && f[0] == "depth60" {
		ops = c04DepthOptions[f[2]]()
	}
	if f := strings.Split(shape, ":"); len(f) == 2 && f[0] == "recursive-env" {
		var k int
		fmt.Sscanf(f[1], "%d", &k)
		c := c04RecursiveEnvCases[k]
		for _, extra := range [][]expr.Option{nil, {expr.AllowUndefinedVariables()}, {expr.Optimize(false)}} {
			kind, what := c04All(c.src, c.env(), append([]expr.Option{expr.Env(c.env())}, extra...))
			if kind != "" {
				fmt.Printf("STRESS-VIOLATION %s %s\n", kind, what)
				os.Exit(3)
			}
		}
		if o := c04Try(func() { docgen.CreateDoc(c.env()) }); o.panicked {
			fmt.Printf("STRESS-VIOLATION docgen-panics %s\n", o.msg)
			os.Exit(3)
		}
		fmt.Println("STRESS-OK")
		os.Exit(0)
	}
	kind, what := c04All(src, full, ops)
	if kind != "" {
		fmt.Printf("STRESS-VIOLATION %s %s\n", kind, what)
		os.Exit(3)
	}
	fmt.Println("STRESS-OK")
	os.Exit(0)
}

func c04Stress(r *report.Run, order int64) int {
	shapes := c04Shapes()
	var names []string
	for k := range shapes {
		names = append(names, k)
	}
	type res struct {
		name, out string
		err       error
		timedOut  bool
		undecided bool
	}
	results := make([]res, len(names))
	par.For(len(names), func(i int) {
		cmd := exec.Command(os.Args[0], "C04", r.Tier, "stress-child", names[i])
		cmd.Env = append(os.Environ(), "GOMEMLIMIT=6GiB")
		done := make(chan struct{})
		var out []byte
		var err error
		var buf bytes.Buffer
		cmd.Stdout, cmd.Stderr = &buf, &buf
		if serr := cmd.Start(); serr != nil {
			results[i].name, results[i].out, results[i].err = names[i], serr.Error(), serr
			return
		}
		go func() { err = cmd.Wait(); out = buf.Bytes(); close(done) }()
		// The limit is on the CPU time the child has consumed (read from /proc), not on wall-clock time: a loaded
		// machine slows the child down without making it look hung. A wall-clock cap only ends the wait (reported as
		// "not decided", never as a violation).
		start := time.Now()
	wait:
		for {
			select {
			case <-done:
				break wait
			case <-time.After(500 * time.Millisecond):
				if cpu := procCPUSeconds(cmd.Process.Pid); cpu > 150 {
					cmd.Process.Kill()
					<-done
					results[i].timedOut = true
					break wait
				}
				if time.Since(start) > 30*time.Minute {
					cmd.Process.Kill()
					<-done
					results[i].undecided = true
					break wait
				}
			}
		}
		results[i].name, results[i].out, results[i].err = names[i], string(out), err
	})
	for i, rs := range results {
		switch {
		case rs.undecided:
			r.Note("stress shape %s: no result within 30 minutes of wall-clock time although the child used less than 150 CPU-seconds (overloaded machine): not decided", rs.name)
			r.Set("exhaustive", false)
		case rs.timedOut || strings.Contains(rs.out, "out of memory") || strings.Contains(rs.out, "cannot allocate memory"):
			r.Report(report.Violation{Sub: "stress", Kind: "resource-exhaustion", Witness: rs.name, Order: order + int64(i), Detail: map[string]interface{}{"shape": rs.name, "what": "more than 150 CPU-seconds without a result, or the process ran out of its 12 GiB address space: " + lastLines(rs.out, 2)}})
		case strings.Contains(rs.out, "STRESS-OK"):
		case strings.Contains(rs.out, "STRESS-VIOLATION"):
			r.Report(report.Violation{Sub: "stress", Kind: "panic", Witness: rs.name, Order: order + int64(i), Detail: map[string]interface{}{"shape": rs.name, "what": lastLines(rs.out, 3)}})
		default:
			r.Report(report.Violation{Sub: "stress", Kind: "process-died", Witness: rs.name, Order: order + int64(i), Detail: map[string]interface{}{"shape": rs.name, "what": lastLines(rs.out, 6), "exit": fmt.Sprint(rs.err)}})
		}
	}
	return len(names)
}

// procCPUSeconds returns user+system CPU time of a process (all threads) from /proc/<pid>/stat.
func procCPUSeconds(pid int) float64 {
	b, err := os.ReadFile(fmt.Sprintf("/proc/%d/stat", pid))
	if err != nil {
		return 0
	}
	s := string(b)
	if k := strings.LastIndex(s, ")"); k >= 0 {
		f := strings.Fields(s[k+1:])
		if len(f) > 13 {
			var ut, st float64
			fmt.Sscanf(f[11], "%f", &ut)
			fmt.Sscanf(f[12], "%f", &st)
			return (ut + st) / 100 // clock ticks: 100 per second on Linux
		}
	}
	return 0
}

func lastLines(s string, n int) string {
	l := strings.Split(strings.TrimSpace(s), "\n")
	if len(l) > n {
		l = append(l[:2], l[len(l)-n:]...)
	}
	out := strings.Join(l, " | ")
	if len(out) > 600 {
		out = out[:600]
	}
	return out
}

var _ = gen.TInt
