package main

import (
	"fmt"
	"reflect"
	"sort"
	"strings"
	"sync"
	"sync/atomic"

	"github.com/antonmedv/expr"
	"github.com/antonmedv/expr/checker"
	"github.com/antonmedv/expr/conf"
	"github.com/antonmedv/expr/docgen"
	"github.com/antonmedv/expr/parser"
	"github.com/antonmedv/expr/vm"

	"verif/mc/c16types"
	"verif/mc/henv"
	"verif/mc/par"
	"verif/mc/report"
)

// C16: names the checker accepts are exactly those the VM resolves. A generated
// family of environment struct types (every ordered choice of <= 3 slots: direct,
// unexported, function-typed, embedded by value / by pointer / deep / unexported
// embedded, with shadowing and genuine ambiguity in every field order) x every name
// of a universe x forms {Name, Name(), V.Name, V.Name()} x {value, pointer}; the oracle
// is Go's own resolution through reflect.

var c16Names = []string{"X", "Y", "x", "Fn", "M", "VM", "PM", "EM", "EPM", "EXi", "EXs", "EY", "Deep", "DeepY", "exi", "Xx", "Z", "vm", "C16Marker", "C16Empty", "Mark"}

func c16Compile(src string, ops ...expr.Option) (p *vm.Program, err error) {
	defer func() {
		if r := recover(); r != nil {
			err = fmt.Errorf("PANIC: %v", r)
		}
	}()
	return expr.Compile(src, ops...)
}

func c16Static(src string, env interface{}) reflect.Type {
	defer func() { recover() }()
	tree, err := parser.Parse(src)
	if err != nil {
		return nil
	}
	t, _ := checker.Check(tree, conf.New(env))
	return t
}

func c16Run(p *vm.Program, env interface{}) (out interface{}, err error) {
	defer func() {
		if r := recover(); r != nil {
			err = fmt.Errorf("PANIC: %v", r)
		}
	}()
	return vm.Run(p, env)
}

// providers lists, in field order, which slots of t provide the name.
func c16Providers(t reflect.Type, name string) string {
	for t.Kind() == reflect.Ptr {
		t = t.Elem()
	}
	var out []string
	for i := 0; i < t.NumField(); i++ {
		f := t.Field(i)
		if !f.Anonymous {
			if f.Name == name {
				out = append(out, "direct")
			}
			continue
		}
		if f.Name == name {
			out = append(out, "embedded-field-itself")
		}
		ft := f.Type
		ptr := ""
		for ft.Kind() == reflect.Ptr {
			ft = ft.Elem()
			ptr = "*"
		}
		if _, ok := ft.FieldByName(name); ok {
			out = append(out, "field-of-"+ptr+ft.Name())
		} else if _, ok := f.Type.MethodByName(name); ok {
			out = append(out, "method-of-"+ptr+ft.Name())
		} else if _, ok := reflect.PtrTo(ft).MethodByName(name); ok {
			out = append(out, "ptr-method-of-"+ptr+ft.Name())
		}
	}
	if _, ok := t.MethodByName(name); ok {
		out = append(out, "method")
	} else if _, ok := reflect.PtrTo(t).MethodByName(name); ok {
		out = append(out, "ptr-method")
	}
	if len(out) == 0 {
		return "absent"
	}
	return strings.Join(out, ",")
}

func init() { checks["C16"] = c16 }

func c16(r *report.Run) {
	cases := c16types.All
	if r.Tier == "never" { // the full family takes about a second: both tiers run all of it
		// quick: every type with <= 2 slots and every third type with 3 slots
		var sel []c16types.Case
		for i, c := range cases {
			if strings.Count(c.Decl, ";") <= 1 || i%3 == 0 {
				sel = append(sel, c)
			}
		}
		cases = sel
	}
	// handwritten shapes the generated family does not contain: one struct type reached along two embedding paths
	// of equal depth (a diamond), the same with an own field on top, and a struct embedding a pointer to itself
	cases = append(append([]c16types.Case{}, cases...),
		c16types.Case{Name: "C16Diamond", Decl: "struct{ C16L{C16Base}; C16R{*C16Base} }", Value: C16Diamond{C16L{C16Base{1, "y"}}, C16R{&C16Base{2, "z"}}}, Ptr: &C16Diamond{C16L{C16Base{1, "y"}}, C16R{&C16Base{2, "z"}}}},
		c16types.Case{Name: "C16DiamondOwn", Decl: "struct{ C16L{C16Base}; C16R{*C16Base}; X string }", Value: C16DiamondOwn{C16L{C16Base{1, "y"}}, C16R{&C16Base{2, "z"}}, "own"}, Ptr: &C16DiamondOwn{C16L{C16Base{1, "y"}}, C16R{&C16Base{2, "z"}}, "own"}},
		c16types.Case{Name: "C16Empty", Decl: "struct{}", Value: C16Empty{}, Ptr: &C16Empty{}},
		c16types.Case{Name: "C16OnlyUnexported", Decl: "struct{ x int; y string }", Value: C16OnlyUnexported{1, "y"}, Ptr: &C16OnlyUnexported{1, "y"}},
		c16types.Case{Name: "C16WithMarker", Decl: "struct{ C16Marker{hidden}; C16Empty; X int }", Value: C16WithMarker{C16Marker{1}, C16Empty{}, 2}, Ptr: &C16WithMarker{C16Marker{1}, C16Empty{}, 2}},
		c16types.Case{Name: "C16SelfEmbed", Decl: "struct{ *C16SelfEmbed; X int }", Value: C16SelfEmbed{nil, 3}, Ptr: &C16SelfEmbed{nil, 3}},
	)
	var evals, accepted int64
	var mu sync.Mutex
	classes := map[string]bool{}
	rep := func(order int64, sub, kind, witness string, c c16types.Case, src, what string) {
		r.Report(report.Violation{Sub: sub, Kind: kind, Witness: witness, Order: order,
			Detail: map[string]interface{}{"type": c.Decl, "type_name": c.Name, "source": src, "what": what}})
	}
	builtinDoc := map[string]bool{}
	for k := range docgen.Builtins {
		builtinDoc[string(k)] = true
	}
	for _, o := range docgen.Operators {
		builtinDoc[o] = true
	}
	par.For(len(cases), func(ci int) {
		c := cases[ci]
		order := int64(ci) * 1000
		for _, mode := range []string{"value", "pointer"} {
			env := c.Value
			if mode == "pointer" {
				env = c.Ptr
			}
			et := reflect.TypeOf(env)
			st := et
			for st.Kind() == reflect.Ptr {
				st = st.Elem()
			}
			ev := reflect.ValueOf(env)
			for ev.Kind() == reflect.Ptr {
				ev = ev.Elem()
			}
			holder := map[string]interface{}{"V": env}
			acceptedTop := map[string]bool{}
			for ni, n := range c16Names {
				prov := c16Providers(et, n)
				f, fok := st.FieldByName(n)
				goField := fok && f.PkgPath == ""
				_, goMethod := et.MethodByName(n)
				forms := []struct {
					form, src string
					env       interface{}
					opt       expr.Option
					nested    bool
					call      bool
				}{
					{"Name", n, env, expr.Env(env), false, false},
					{"Name()", n + "()", env, expr.Env(env), false, true},
					{"V.Name", "V." + n, holder, expr.Env(holder), true, false},
					{"V.Name()", "V." + n + "()", holder, expr.Env(holder), true, true},
				}
				for _, fm := range forms {
					atomic.AddInt64(&evals, 1)
					p, err := c16Compile(fm.src, fm.opt)
					witness := fmt.Sprintf("%s %s on %s env: %s", fm.form, n, mode, prov)
					o := order + int64(ni)
					if err != nil && strings.HasPrefix(err.Error(), "PANIC") {
						rep(o, "panic", "compile", witness, c, fm.src, err.Error())
						continue
					}
					isAccepted := err == nil
					if isAccepted && !fm.nested {
						acceptedTop[n] = true
					}
					// what Go resolves
					var goResolves bool
					var goVal reflect.Value
					if fm.call {
						if goMethod {
							m := reflect.ValueOf(env).MethodByName(n)
							if m.IsValid() && m.Type().NumIn() == 0 && m.Type().NumOut() == 1 {
								goResolves = true
								goVal = m.Call(nil)[0]
							}
						} else if goField && f.Type.Kind() == reflect.Func {
							fv := ev.FieldByIndex(safeIndex(ev, f.Index))
							if fv.IsValid() && !fv.IsNil() {
								goResolves = true
								goVal = fv.Call(nil)[0]
							}
						}
					} else if goField && !goMethod {
						goResolves = true
						goVal = ev.FieldByIndex(safeIndex(ev, f.Index))
					}
					if isAccepted {
						atomic.AddInt64(&accepted, 1)
						out, rerr := c16Run(p, fm.env)
						if rerr != nil {
							rep(o, "accepted-name", "unresolvable-at-run-time", witness, c, fm.src, rerr.Error())
						} else {
							static := c16Static(fm.src, fm.env)
							ot := reflect.TypeOf(out)
							if static != nil && static.Kind() != reflect.Interface && ot != static {
								rep(o, "accepted-name", "type-differs-from-checker", witness, c, fm.src, fmt.Sprintf("checker %v, run-time %v", static, ot))
							} else if goResolves && goVal.IsValid() && goVal.CanInterface() && goVal.Kind() != reflect.Func && goVal.Kind() != reflect.Ptr && henv.Norm(out) != henv.Norm(goVal.Interface()) {
								rep(o, "accepted-name", "value-differs-from-go-resolution", witness, c, fm.src, fmt.Sprintf("run %s, Go selects %s", henv.Norm(out), henv.Norm(goVal.Interface())))
							}
						}
					} else if goResolves {
						rep(o, "go-resolvable-member", "rejected", witness, c, fm.src, err.Error())
					}
					mu.Lock()
					classes[fm.form+"|"+prov+"|"+fmt.Sprint(isAccepted)] = true
					mu.Unlock()
				}
			}
			// documentation lists exactly the accepted top-level names
			doc := func() map[string]bool {
				defer func() { recover() }()
				d := docgen.CreateDoc(env)
				m := map[string]bool{}
				for k := range d.Variables {
					if !builtinDoc[string(k)] {
						m[string(k)] = true
					}
				}
				return m
			}()
			if doc != nil {
				cand := map[string]bool{}
				for _, n := range c16Names {
					cand[n] = true
				}
				for k := range doc {
					cand[k] = true
				}
				var names []string
				for k := range cand {
					names = append(names, k)
				}
				sort.Strings(names)
				for _, n := range names {
					acc, known := acceptedTop[n]
					if !known {
						_, e1 := c16Compile(n, expr.Env(env))
						_, e2 := c16Compile(n+"()", expr.Env(env))
						acc = e1 == nil || e2 == nil
					}
					if acc != doc[n] {
						kind := "documented-but-not-accepted"
						if acc {
							kind = "accepted-but-not-documented"
						}
						rep(order+900, "docgen", kind, fmt.Sprintf("%s on %s env: %s", n, mode, c16Providers(et, n)), c, n, "")
					}
				}
			}
		}
	})
	// maps: typed, untyped and named map types with methods
	c16Maps(r, &evals)
	c16SpecialNames(r, &evals)
	r.Sample(map[string]interface{}{"type": cases[len(cases)/2].Decl, "names": c16Names, "forms": []string{"Name", "Name()", "V.Name", "V.Name()"}})
	r.Set("environment_types", len(cases))
	r.Set("evaluations", evals)
	r.Set("accepted_names_run", accepted)
	r.Set("states", int64(len(cases)))
	r.Set("transitions", evals)
	r.Set("traces_validated_against_impl", accepted)
	r.Set("distinct_nontrivial", int64(len(classes)))
	r.Set("exhaustive", true)
	r.Set("rule", "generated family: every ordered choice of <= 3 slots from {X int, Y string, unexported x, func field, M int, EXi, *EXi, EXs (X string), EY, *EY, Deep{EXi}, DeepY{EY; X string}, unexported embedded exi} (+ value/pointer methods, a method shadowing a promoted field on every third type) x 18 names x {Name, Name(), V.Name, V.Name()} x {value, pointer} environment; oracle = reflect FieldByName/MethodByName; docgen vs accepted names; plus map environments; distinct_nontrivial = distinct (form, provider pattern, accepted) classes")
	r.Assume("Go's own selector resolution (reflect.FieldByName reports ambiguity, MethodByName) is the reference for 'resolves unambiguously'")
	r.Assume("quick runs every type with <= 2 slots and every third 3-slot type; thorough runs the whole family")
}

func safeIndex(v reflect.Value, idx []int) []int { return idx }

type c16NamedMap map[string]interface{}

func (m c16NamedMap) Size() int  { return len(m) }
func (m c16NamedMap) Twice() int { return 2 * len(m) }

type c16TypedNamedMap map[string]int

func (m c16TypedNamedMap) Total() int {
	s := 0
	for _, v := range m {
		s += v
	}
	return s
}

func c16Maps(r *report.Run, evals *int64) {
	envs := []struct {
		name string
		env  interface{}
	}{
		{"map[string]interface{}", map[string]interface{}{"a": 1, "s": "x", "f": func() int { return 3 }, "n": nil}},
		{"map[string]int", map[string]int{"a": 1, "b": 2}},
		{"named map with methods", c16NamedMap{"a": 1, "s": "x"}},
		{"typed named map with method", c16TypedNamedMap{"a": 1}},
	}
	anon := map[string]interface{}{
		"Config": struct{ MaxSize int }{1},
		"Limits": struct {
			Label   string
			MaxSize int
		}{"l", 2},
		"Deep": struct {
			c16Inner
			MaxSize int
		}{c16Inner{Label: "d"}, 4},
	}
	envs = append(envs, struct {
		name string
		env  interface{}
	}{"map with unnamed struct members", anon})
	tm := c16TypedNamedMap{"a": 1}
	envs = append(envs, struct {
		name string
		env  interface{}
	}{"members of named map types with methods", map[string]interface{}{"V": c16NamedMap{"a": 1, "s": "x"}, "W": c16TypedNamedMap{"a": 1, "b": 2}, "PW": &tm}})
	order := int64(1) << 40
	for _, e := range envs {
		srcs := []string{"a", "s", "f()", "b", "zz", "Size()", "Twice()", "Total()", "Size", "a + 1", "n"}
		if e.name == "map with unnamed struct members" {
			srcs = []string{"Config.MaxSize", "Limits.MaxSize", "Limits.Label", "Deep.MaxSize", "Deep.Label", "Config.MaxSize + Limits.MaxSize + Deep.MaxSize == 7", "Limits.MaxSize + Config.MaxSize == 3", `Deep.Label + Limits.Label == "dl"`}
		}
		mustCompile := false
		if e.name == "members of named map types with methods" {
			// Go resolves every one of these: the method set of a named map type comes before its elements
			srcs = []string{"V.Size() == 2", "V.Twice() == 4", "W.Total() == 3", "V.a == 1", `V.s == "x"`, "W.a + W.b == 3", "PW.Total() == 1", "V.Size() + W.Total() == 5"}
			mustCompile = true
		}
		for _, src := range srcs {
			*evals++
			order++
			p, err := c16Compile(src, expr.Env(e.env))
			if err != nil && mustCompile {
				r.Report(report.Violation{Sub: "map-env", Kind: "go-resolvable-member rejected", Witness: src + " on " + e.name, Order: order, Detail: map[string]interface{}{"error": err.Error()}})
				continue
			}
			if err != nil {
				if strings.HasPrefix(err.Error(), "PANIC") {
					r.Report(report.Violation{Sub: "map-env", Kind: "panic", Witness: src + " on " + e.name, Order: order, Detail: map[string]interface{}{"error": err.Error()}})
				}
				continue
			}
			out, rerr := c16Run(p, e.env)
			if rerr != nil {
				r.Report(report.Violation{Sub: "map-env", Kind: "accepted-but-unresolvable", Witness: src + " on " + e.name, Order: order, Detail: map[string]interface{}{"error": rerr.Error()}})
				continue
			}
			if strings.Contains(src, "==") && out != true {
				r.Report(report.Violation{Sub: "map-env", Kind: "wrong-member-resolved", Witness: src + " on " + e.name, Order: order, Detail: map[string]interface{}{"result": fmt.Sprint(out)}})
			}
			static := c16Static(src, e.env)
			if static != nil && static.Kind() != reflect.Interface && reflect.TypeOf(out) != static {
				r.Report(report.Violation{Sub: "map-env", Kind: "type-differs-from-checker", Witness: src + " on " + e.name, Order: order,
					Detail: map[string]interface{}{"checker": fmt.Sprint(static), "run_time": fmt.Sprintf("%T", out)}})
			}
		}
	}
}

type c16Special struct {
	Ölstand       int
	Ärger         string
	XXX_sizecache int
	Plain         int
	// exported Go names that differ from the language's word operators only by case
	IN, OR, AND, NOT, In, Or, Matches, NIL, TRUE, Len int
	Gate                                              c16Gate
}

type c16Gate struct{ OR, AND, IN, Not int }

func (c16Special) ALL() int { return 7 }

func (c16Special) Élan() int       { return 1 }
func (c16Special) XXX_Method() int { return 2 }

func c16SpecialNames(r *report.Run, evals *int64) {
	env := c16Special{Ölstand: 1, Ärger: "a", XXX_sizecache: 3, Plain: 4, IN: 1, OR: 2, AND: 3, NOT: 4, In: 5, Or: 6, Matches: 7, NIL: 8, TRUE: 9, Len: 10, Gate: c16Gate{1, 2, 3, 4}}
	builtinDoc := map[string]bool{}
	for k := range docgen.Builtins {
		builtinDoc[string(k)] = true
	}
	for _, o := range docgen.Operators {
		builtinDoc[o] = true
	}
	doc := docgen.CreateDoc(env)
	order := int64(1)<<40 + 1000
	for _, n := range []string{"Gate.OR", "Gate.AND", "Gate.IN", "Gate.Not", "IN + 1", "OR + AND", "NOT + 1", "In + Or + Matches + NIL + TRUE + Len", "ALL()"} {
		// Go resolves every one of these members: the checker must accept them and the run must read the member
		*evals++
		order++
		p, err := c16Compile(n, expr.Env(env))
		if err != nil {
			r.Report(report.Violation{Sub: "family", Kind: "go-resolvable-member rejected", Witness: "special name " + n, Order: order, Detail: map[string]interface{}{"error": err.Error()}})
			continue
		}
		if out, err := c16Run(p, env); err != nil || reflect.TypeOf(out) != reflect.TypeOf(0) {
			r.Report(report.Violation{Sub: "accepted-name", Kind: "unresolvable-at-run-time", Witness: "special name " + n, Order: order, Detail: map[string]interface{}{"error": fmt.Sprint(err), "result": fmt.Sprint(out)}})
		}
	}
	for _, n := range []string{"Ölstand", "Ärger", "XXX_sizecache", "Plain", "Élan", "XXX_Method", "ölstand", "IN", "OR", "AND", "NOT", "In", "Matches", "NIL", "ALL"} {
		*evals++
		order++
		_, e1 := c16Compile(n, expr.Env(env))
		_, e2 := c16Compile(n+"()", expr.Env(env))
		accepted := e1 == nil || e2 == nil
		_, documented := doc.Variables[docgen.Identifier(n)]
		if accepted != documented {
			kind := "documented-but-not-accepted"
			if accepted {
				kind = "accepted-but-not-documented"
			}
			r.Report(report.Violation{Sub: "docgen", Kind: kind, Witness: "special name " + n, Order: order, Detail: map[string]interface{}{"name": n}})
		}
		if _, isMethod := reflect.TypeOf(env).MethodByName(n); e1 == nil && !isMethod {
			p, _ := c16Compile(n, expr.Env(env))
			if _, err := c16Run(p, env); err != nil {
				r.Report(report.Violation{Sub: "accepted-name", Kind: "unresolvable-at-run-time", Witness: "special name " + n, Order: order, Detail: map[string]interface{}{"error": err.Error()}})
			}
		}
	}
}

type c16Inner struct{ Label string }

type C16Base struct {
	X int
	Y string
}
type C16L struct{ C16Base }
type C16R struct{ *C16Base }
type C16Diamond struct {
	C16L
	C16R
}
type C16DiamondOwn struct {
	C16L
	C16R
	X string
}
type C16Empty struct{}
type C16OnlyUnexported struct {
	x int
	y string
}
type C16Marker struct{ hidden int }

func (C16Marker) Mark() int { return 9 }

type C16WithMarker struct {
	C16Marker
	C16Empty
	X int
}
type C16SelfEmbed struct {
	*C16SelfEmbed
	X int
}
