// Command racer is the free-running auxiliary pass of C08: the same thread bodies
// as the controlled scheduler, run by real goroutines in a binary built with -race.
// A data race makes the race detector print a report (and exit 66); a result that
// differs from the solo result prints RACER-MISMATCH.
package main

import (
	"bytes"
	"fmt"
	"os"
	"sort"
	"strconv"
	"sync"

	"github.com/antonmedv/expr"
	"github.com/antonmedv/expr/ast"
	"github.com/antonmedv/expr/vm"

	"verif/mc/c08lib"
)

type noopVisitor struct{}

func (noopVisitor) Enter(*ast.Node) {}
func (noopVisitor) Exit(*ast.Node)  {}

type opEnv struct {
	c08lib.Env
	Tag string
}

func (opEnv) AddS(a, b string) string { return a + "+" + b }
func (*opEnv) PtrMeth() int           { return 1 }
func (opEnv) Up(s string) string      { return s + "!" }

func main() {
	rounds, G, M := 20, 8, 30
	if len(os.Args) > 1 {
		rounds, _ = strconv.Atoi(os.Args[1])
	}
	envs := []interface{}{c08lib.EnvA(), c08lib.EnvB(), c08lib.EnvP()}
	// (0) cold process: the very first runs of this process are concurrent (state the library initialises or grows on
	// first use is written by several goroutines at once); results are compared with the solo results computed below
	coldProgs, err := c08lib.CompileAll(c08lib.Env{})
	if err != nil {
		fmt.Println("RACER-SETUP-FAILED", err)
		os.Exit(3)
	}
	cold := make([][]string, G)
	{
		var wg sync.WaitGroup
		start := make(chan struct{})
		for g := 0; g < G; g++ {
			wg.Add(1)
			go func(g int) {
				defer wg.Done()
				<-start
				for k := range coldProgs {
					pi := (k + g) % len(coldProgs)
					cold[g] = append(cold[g], fmt.Sprintf("%d:%s", pi, c08lib.Result(vm.Run(coldProgs[pi], envs[g%2]))))
				}
			}(g)
		}
		close(start)
		wg.Wait()
	}
	// solo results
	solo := make([][]string, len(envs))
	ref, err := c08lib.CompileAll(c08lib.Env{})
	if err != nil {
		fmt.Println("RACER-SETUP-FAILED", err)
		os.Exit(3)
	}
	for ei, e := range envs {
		for _, p := range ref {
			solo[ei] = append(solo[ei], c08lib.Result(vm.Run(p, e)))
		}
	}
	mismatch := 0
	var mu sync.Mutex
	for g := range cold {
		for _, line := range cold[g] {
			var pi int
			fmt.Sscanf(line, "%d:", &pi)
			if want := fmt.Sprintf("%d:%s", pi, solo[g%2][pi]); line != want {
				mismatch++
				if mismatch < 5 {
					fmt.Printf("RACER-MISMATCH cold run of program %q: got %s, solo %s\n", c08lib.Source(pi), line, want)
				}
			}
		}
	}
	// (1) shared programs, cold (fresh instance per round) and warm
	for r := 0; r < rounds; r++ {
		progs, err := c08lib.CompileAll(c08lib.Env{})
		if err != nil {
			fmt.Println("RACER-SETUP-FAILED", err)
			os.Exit(3)
		}
		var wg sync.WaitGroup
		start := make(chan struct{})
		for g := 0; g < G; g++ {
			wg.Add(1)
			go func(g int) {
				defer wg.Done()
				<-start
				for m := 0; m < M; m++ {
					for pi, p := range progs {
						ei := (g + m) % len(envs)
						got := c08lib.Result(vm.Run(p, envs[ei]))
						if got != solo[ei][pi] {
							mu.Lock()
							mismatch++
							if mismatch < 5 {
								fmt.Printf("RACER-MISMATCH program %q env %d: got %s, solo %s\n", c08lib.Source(pi), ei, got, solo[ei][pi])
							}
							mu.Unlock()
						}
					}
				}
			}(g)
		}
		close(start)
		wg.Wait()
	}
	// (1b) one program with a run-time pattern, run with 150 distinct patterns (a table of compiled patterns kept by the
	// library would be filled, evicted and reset by several goroutines at once)
	{
		p, err := expr.Compile(`S matches Pat`, expr.Env(c08lib.Env{}))
		if err != nil {
			fmt.Println("RACER-SETUP-FAILED", err)
			os.Exit(3)
		}
		var wg sync.WaitGroup
		start := make(chan struct{})
		for g := 0; g < G; g++ {
			wg.Add(1)
			go func(g int) {
				defer wg.Done()
				<-start
				for k := 0; k < 150; k++ {
					e := c08lib.EnvA()
					e.Pat = fmt.Sprintf("^a.{%d}b|X%d", (k+g)%150, k%150)
					out, err := vm.Run(p, e)
					if want := len(e.S)-2 == (k+g)%150; err != nil || out != want {
						mu.Lock()
						mismatch++
						mu.Unlock()
					}
				}
			}(g)
		}
		close(start)
		wg.Wait()
	}
	// (2) concurrent Compile sharing options and environment values
	shared := &opEnv{Env: c08lib.EnvA(), Tag: "t"}
	mapEnv := map[string]interface{}{"S": "a", "I": 1, "A": []int{1, 2}, "Up": func(s string) string { return s + "!" }}
	// Option VALUES shared by all goroutines (the realistic way to use options: build once, compile many).
	// They are built afresh for every round, so that the first use of each option value is concurrent too.
	type job struct {
		src string
		ops []expr.Option
	}
	mkJobs := func() []job {
		sharedMapEnvOpt := expr.Env(mapEnv)
		sharedStructOpt := expr.Env(shared)
		sharedUndef := expr.AllowUndefinedVariables()
		return []job{
			{`S + Tag`, []expr.Option{expr.Env(shared), expr.Operator("+", "AddS")}},
			{`Up("x") + S`, []expr.Option{expr.Env(shared), expr.ConstExpr("Up")}},
			{`PtrMeth() + I`, []expr.Option{expr.Env(shared)}},
			{`Twice(I) in 1..9 and S matches "a"`, []expr.Option{expr.Env(*shared), expr.Patch(noopVisitor{})}},
			{`Up(S) + "y"`, []expr.Option{expr.Env(mapEnv), expr.AllowUndefinedVariables()}},
			{`len(A) + I`, []expr.Option{expr.Env(mapEnv), expr.AsInt64()}},
			{`undefinedOne + len(S)`, []expr.Option{sharedMapEnvOpt, sharedUndef}},
			{`undefinedTwo == nil and I > 0`, []expr.Option{sharedMapEnvOpt, sharedUndef}},
			{`undefinedThree ? S : Up(S)`, []expr.Option{sharedMapEnvOpt, sharedUndef}},
			{`I + len(S)`, []expr.Option{sharedMapEnvOpt}},
			{`S + Tag`, []expr.Option{sharedStructOpt, expr.Operator("+", "AddS")}},
			{`PtrMeth() + I`, []expr.Option{sharedStructOpt}},
			{`undefinedFour == nil`, []expr.Option{sharedStructOpt, sharedUndef}},
			{`len(5..1) + I`, []expr.Option{sharedStructOpt}},
			{`count(A, {# in 1..3}) + len(filter(A, {# in [1, 2, 3]}))`, []expr.Option{sharedStructOpt}},
			{`all(A, {any(A, {# > 1}) and # in 0..9})`, []expr.Option{sharedMapEnvOpt}},
			{`S + "literal number one" + "x"`, []expr.Option{sharedStructOpt}},
			{`S + "another, different literal" + "\u00e9\n"`, []expr.Option{sharedMapEnvOpt}},
			{`I + len(S) + len(3..2)`, []expr.Option{sharedStructOpt}},
			{`count(9..2, {# > 0}) == 0 ? "none" : "some"`, []expr.Option{sharedMapEnvOpt}},
			{`                 all(7..6, {# != I})`, []expr.Option{sharedMapEnvOpt}},
		}
	}
	ref2 := mkJobs()
	progKey := func(p *vm.Program) string {
		var locs []int
		for k := range p.Locations {
			locs = append(locs, k)
		}
		sort.Ints(locs)
		s := fmt.Sprintf("%x|%d|", p.Bytecode, len(p.Constants))
		for _, k := range locs {
			s += fmt.Sprintf("%d:%d.%d,", k, p.Locations[k].Line, p.Locations[k].Column)
		}
		return s
	}
	soloKey := make([]string, len(ref2))
	soloBC := make([][]byte, len(ref2))
	for i, j := range ref2 {
		p, err := expr.Compile(j.src, j.ops...)
		if err != nil {
			fmt.Println("RACER-SETUP-FAILED", j.src, err)
			os.Exit(3)
		}
		soloBC[i] = p.Bytecode
		soloKey[i] = progKey(p)
	}
	for r := 0; r < rounds; r++ {
		jobs := mkJobs()
		var wg sync.WaitGroup
		start := make(chan struct{})
		for g := 0; g < G; g++ {
			wg.Add(1)
			go func(g int) {
				defer wg.Done()
				<-start
				for m := 0; m < M/3+1; m++ {
					for k := range jobs {
						i := (k + g) % len(jobs) // different goroutines start at different jobs
						j := jobs[i]
						p, err := expr.Compile(j.src, j.ops...)
						if err != nil || !bytes.Equal(p.Bytecode, soloBC[i]) || progKey(p) != soloKey[i] {
							mu.Lock()
							mismatch++
							if mismatch < 5 {
								fmt.Printf("RACER-MISMATCH concurrent Compile of %q: %v\n", j.src, err)
							}
							mu.Unlock()
						}
					}
				}
			}(g)
		}
		close(start)
		wg.Wait()
	}
	if mismatch > 0 {
		fmt.Println("RACER-MISMATCHES", mismatch)
		os.Exit(4)
	}
	fmt.Println("RACER-OK")
}
