// Package report writes evidence files, matches violations against the committed
// known-findings file, writes replay files and produces the exit status.
package report

import (
	"crypto/sha1"
	"encoding/json"
	"fmt"
	"os"
	"path/filepath"
	"regexp"
	"sort"
	"strconv"
	"strings"
	"sync"
	"time"
)

// Root is the /verif directory (overridable for tests).
var Root = func() string {
	if r := os.Getenv("VERIF_ROOT"); r != "" {
		return r
	}
	return "/verif"
}()

// McDir is the directory of the checker's Go module (for the secondary builds some checks make).
func McDir() string {
	if h := os.Getenv("VERIF_HOME"); h != "" {
		return filepath.Join(h, "mc")
	}
	return filepath.Join(Root, "mc")
}

type known struct {
	prop string
	re   *regexp.Regexp
	desc string
	hits int
}

// Violation is one oracle failure, already reduced to its minimal witness.
type Violation struct {
	Sub     string                 // sub-check name
	Kind    string                 // mismatch kind
	Witness string                 // minimal witness in normal form
	Detail  map[string]interface{} // anything useful for replay
	Order   int64                  // enumeration order (first reported first)
}

func (v Violation) Sig() string { return v.Sub + "|" + v.Kind + "|" + v.Witness }

type Run struct {
	Prop        string
	Tier        string
	Seed        int64
	Level       string
	start       time.Time
	mu          sync.Mutex
	Cov         map[string]interface{}
	Assumptions []string
	viol        map[string]*Violation // by signature
	violCount   map[string]int
	knowns      []*known
	samples     []interface{}
	Deadline    time.Time
	notes       []string
}

// New creates the run record. args: <tier>.
func New(prop string, tier string) *Run {
	r := &Run{Prop: prop, Tier: tier, Level: "model_checking", start: time.Now(),
		Cov: map[string]interface{}{}, viol: map[string]*Violation{}, violCount: map[string]int{}}
	if s := os.Getenv("VERIF_SEED"); s != "" {
		r.Seed, _ = strconv.ParseInt(s, 10, 64)
	}
	if tier != "quick" && tier != "thorough" {
		fmt.Fprintf(os.Stderr, "unknown tier %q\n", tier)
		os.Exit(2)
	}
	budget := 8 * time.Minute
	if tier == "thorough" {
		budget = 45 * time.Minute
	}
	if s := os.Getenv("VERIF_BUDGET_S"); s != "" {
		if n, err := strconv.Atoi(s); err == nil {
			budget = time.Duration(n) * time.Second
		}
	}
	r.Deadline = r.start.Add(budget)
	r.loadKnown()
	return r
}

// OutOfTime reports whether the wall-clock budget of this tier is used up. Checks
// call it only between complete levels; a level that was started is finished.
func (r *Run) OutOfTime() bool { return time.Now().After(r.Deadline) }

func (r *Run) loadKnown() {
	b, err := os.ReadFile(filepath.Join(Root, "KNOWN_FINDINGS.txt"))
	if err != nil {
		return
	}
	for _, line := range strings.Split(string(b), "\n") {
		line = strings.TrimSpace(line)
		if !strings.HasPrefix(line, "known:") {
			continue
		}
		rest := strings.TrimSpace(strings.TrimPrefix(line, "known:"))
		parts := strings.SplitN(rest, " :: ", 2)
		desc := ""
		if len(parts) == 2 {
			desc = parts[1]
		}
		f := strings.SplitN(parts[0], " sig=", 2)
		if len(f) != 2 {
			continue
		}
		prop := strings.TrimPrefix(strings.TrimSpace(f[0]), "property=")
		if prop != r.Prop {
			continue
		}
		pat := strings.TrimSpace(f[1])
		var re *regexp.Regexp
		if strings.HasPrefix(pat, "re:") {
			re, err = regexp.Compile("^(?:" + strings.TrimPrefix(pat, "re:") + ")$")
			if err != nil {
				fmt.Fprintf(os.Stderr, "bad known-finding pattern %q: %v\n", pat, err)
				os.Exit(2)
			}
		} else {
			re = regexp.MustCompile("^" + regexp.QuoteMeta(pat) + "$")
		}
		r.knowns = append(r.knowns, &known{prop: prop, re: re, desc: desc})
	}
}

func (r *Run) Note(format string, a ...interface{}) {
	r.mu.Lock()
	r.notes = append(r.notes, fmt.Sprintf(format, a...))
	r.mu.Unlock()
	fmt.Printf("note: "+format+"\n", a...)
}

// Sample records one explored case for the evidence file (the first few are kept).
func (r *Run) Sample(s interface{}) {
	r.mu.Lock()
	if len(r.samples) < 12 {
		r.samples = append(r.samples, s)
	}
	r.mu.Unlock()
}

func (r *Run) Set(key string, v interface{}) {
	r.mu.Lock()
	r.Cov[key] = v
	r.mu.Unlock()
}

func (r *Run) Add(key string, n int64) {
	r.mu.Lock()
	cur, _ := r.Cov[key].(int64)
	r.Cov[key] = cur + n
	r.mu.Unlock()
}

func (r *Run) Assume(s string) { r.Assumptions = append(r.Assumptions, s) }

// Report records a violation (deduplicated by signature; the earliest in
// enumeration order is kept as the representative).
func (r *Run) Report(v Violation) {
	r.mu.Lock()
	defer r.mu.Unlock()
	sig := v.Sig()
	r.violCount[sig]++
	if old, ok := r.viol[sig]; !ok || v.Order < old.Order {
		vv := v
		r.viol[sig] = &vv
	}
}

// NumViolations returns the number of distinct signatures seen so far.
func (r *Run) NumViolations() int {
	r.mu.Lock()
	defer r.mu.Unlock()
	return len(r.viol)
}

// Finish writes the evidence file, prints the verdict lines and exits.
func (r *Run) Finish() {
	var sigs []string
	for s := range r.viol {
		sigs = append(sigs, s)
	}
	sort.Slice(sigs, func(i, j int) bool {
		a, b := r.viol[sigs[i]], r.viol[sigs[j]]
		if a.Order != b.Order {
			return a.Order < b.Order
		}
		return sigs[i] < sigs[j]
	})
	if f := os.Getenv("VERIF_DUMP_SIGS"); f != "" {
		var sb strings.Builder
		for _, s := range sigs {
			fmt.Fprintf(&sb, "%s\t%d\n", s, r.violCount[s])
		}
		os.WriteFile(f, []byte(sb.String()), 0o644)
	}
	newV := 0
	knownSeen := 0
	var lines []string
	for _, s := range sigs {
		v := r.viol[s]
		var k *known
		for _, kk := range r.knowns {
			if kk.re.MatchString(s) {
				k = kk
				break
			}
		}
		if k != nil {
			k.hits += r.violCount[s]
			knownSeen++
			continue
		}
		newV++
		if newV > 40 {
			continue // only the first 40 distinct signatures get a replay file
		}
		path := r.writeReplay(v)
		if newV <= 8 {
			lines = append(lines, fmt.Sprintf("VIOLATION property=%s replay=%s", r.Prop, path))
			fmt.Printf("  violation sig=%s cases=%d\n", s, r.violCount[s])
		} else if newV == 9 {
			fmt.Printf("  ... further distinct violation signatures: replay files are written for the first 40 only (%s)\n", filepath.Join(Root, "replays"))
		}
	}
	for _, k := range r.knowns {
		if k.hits > 0 {
			fmt.Printf("KNOWN-FINDING: property=%s %s (cases=%d)\n", r.Prop, k.desc, k.hits)
		}
	}
	for _, l := range lines {
		fmt.Println(l)
	}
	if len(r.samples) == 0 {
		r.samples = []interface{}{"(no sample recorded)"}
	}
	r.Cov["samples"] = r.samples
	if len(r.notes) > 0 {
		r.Cov["notes"] = r.notes
	}
	r.Cov["known_finding_signatures_seen"] = knownSeen
	ev := map[string]interface{}{
		"property_id": r.Prop,
		"tier":        r.Tier,
		"seed":        r.Seed,
		"level":       r.Level,
		"coverage":    r.Cov,
		"assumptions": r.Assumptions,
		"wall_s":      time.Since(r.start).Seconds(),
		"violations":  newV,
	}
	if r.Assumptions == nil {
		ev["assumptions"] = []string{}
	}
	b, _ := json.MarshalIndent(ev, "", " ")
	os.MkdirAll(filepath.Join(Root, "evidence"), 0o755)
	if err := os.WriteFile(filepath.Join(Root, "evidence", r.Prop+".json"), append(b, '\n'), 0o644); err != nil {
		fmt.Fprintln(os.Stderr, "cannot write evidence:", err)
		os.Exit(2)
	}
	fmt.Printf("%s %s: wall=%.1fs new_violations=%d known_signatures=%d\n", r.Prop, r.Tier, time.Since(r.start).Seconds(), newV, knownSeen)
	if newV > 0 {
		os.Exit(1)
	}
	os.Exit(0)
}

func (r *Run) writeReplay(v *Violation) string {
	h := sha1.Sum([]byte(v.Sig()))
	name := fmt.Sprintf("%s-%x.json", r.Prop, h[:6])
	dir := filepath.Join(Root, "replays")
	os.MkdirAll(dir, 0o755)
	path := filepath.Join(dir, name)
	rec := map[string]interface{}{
		"property": r.Prop, "sub": v.Sub, "kind": v.Kind, "witness": v.Witness,
		"signature": v.Sig(), "detail": v.Detail, "tier": r.Tier,
	}
	b, _ := json.MarshalIndent(rec, "", " ")
	os.WriteFile(path, append(b, '\n'), 0o644)
	return path
}
