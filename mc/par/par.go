// Package par runs index ranges on all cores.
package par

import (
	"os"
	"runtime"
	"strconv"
	"sync"
	"sync/atomic"
)

// Workers is the number of goroutines used.
var Workers = func() int {
	if s := os.Getenv("VERIF_WORKERS"); s != "" {
		if n, err := strconv.Atoi(s); err == nil && n > 0 {
			return n
		}
	}
	return runtime.NumCPU()
}()

// For calls f(i) for every i in [0,n), in chunks, on Workers goroutines.
func For(n int, f func(i int)) { ForW(n, func(_, i int) { f(i) }) }

// ForW is For with the worker number passed to f.
func ForW(n int, f func(worker, i int)) {
	if n <= 0 {
		return
	}
	w := Workers
	if w > n {
		w = n
	}
	chunk := n / (w * 8)
	if chunk < 1 {
		chunk = 1
	}
	var next int64
	var wg sync.WaitGroup
	for k := 0; k < w; k++ {
		wg.Add(1)
		k := k
		go func() {
			defer wg.Done()
			for {
				lo := int(atomic.AddInt64(&next, int64(chunk))) - chunk
				if lo >= n {
					return
				}
				hi := lo + chunk
				if hi > n {
					hi = n
				}
				for i := lo; i < hi; i++ {
					f(k, i)
				}
			}
		}()
	}
	wg.Wait()
}
