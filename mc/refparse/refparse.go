// Package refparse is an independent precedence-climbing reference parser for the
// expr grammar (DESIGN.md Appendix B) over the lexer's token stream, with its own
// copy of the binding-power table. Trees are rendered as S-expressions; Sexp renders
// a real ast.Node the same way (locations and types ignored).
package refparse

import (
	"fmt"
	"regexp"
	"strconv"
	"strings"
	"unicode"
	"unicode/utf8"

	"github.com/antonmedv/expr/ast"
	"github.com/antonmedv/expr/file"
	"github.com/antonmedv/expr/parser/lexer"
)

type bp struct {
	prec  int
	right bool
}

var binary = map[string]bp{
	"or": {10, false}, "||": {10, false},
	"and": {15, false}, "&&": {15, false},
	"==": {20, false}, "!=": {20, false}, "<": {20, false}, ">": {20, false}, ">=": {20, false}, "<=": {20, false},
	"not in": {20, false}, "in": {20, false}, "matches": {20, false}, "contains": {20, false}, "startsWith": {20, false}, "endsWith": {20, false},
	"..": {25, false},
	"+":  {30, false}, "-": {30, false},
	"*": {60, false}, "/": {60, false}, "%": {60, false},
	"**": {70, true},
}

var unary = map[string]int{"not": 50, "!": 50, "-": 500, "+": 500}

var builtins = map[string]int{"len": 1, "all": 2, "none": 2, "any": 2, "one": 2, "filter": 2, "map": 2, "count": 2}

// ParseError is a rejection by the reference grammar; Pos is the token index.
type ParseError struct {
	Msg string
	Tok int
	Loc file.Location
}

func (e *ParseError) Error() string { return e.Msg }

type parser struct {
	toks  []lexer.Token
	pos   int
	depth int
}

func (p *parser) cur() lexer.Token { return p.toks[p.pos] }

func (p *parser) fail(format string, a ...interface{}) {
	panic(&ParseError{Msg: fmt.Sprintf(format, a...), Tok: p.pos, Loc: p.cur().Location})
}

func (p *parser) next() {
	if p.pos+1 >= len(p.toks) {
		p.fail("unexpected end of expression")
	}
	p.pos++
}

func (p *parser) is(kind lexer.Kind, val string) bool {
	t := p.cur()
	return t.Kind == kind && t.Value == val
}

func (p *parser) expect(kind lexer.Kind, val string) {
	if !p.is(kind, val) {
		p.fail("unexpected token %v", p.cur())
	}
	p.next()
}

// Parse parses a token stream (as produced by lexer.Lex, ending in EOF).
func Parse(toks []lexer.Token) (sexp string, err *ParseError) {
	defer func() {
		if r := recover(); r != nil {
			if pe, ok := r.(*ParseError); ok {
				sexp, err = "", pe
				return
			}
			panic(r)
		}
	}()
	p := &parser{toks: toks}
	s := p.expr(0)
	if p.cur().Kind != lexer.EOF {
		p.fail("unexpected token %v", p.cur())
	}
	return s, nil
}

// ParseString lexes with the real lexer and parses with the reference grammar.
// lexErr reports a lexer error (then the reference has no opinion).
func ParseString(src string) (sexp string, perr *ParseError, lexErr error) {
	toks, err := lexer.Lex(file.NewSource(src))
	if err != nil {
		return "", nil, err
	}
	s, pe := Parse(toks)
	return s, pe, nil
}

func (p *parser) expr(prec int) string {
	left := p.primary()
	for p.cur().Kind == lexer.Operator {
		t := p.cur()
		op, ok := binary[t.Value]
		if !ok || op.prec < prec {
			break
		}
		p.next()
		var right string
		if op.right {
			right = p.expr(op.prec)
		} else {
			right = p.expr(op.prec + 1)
		}
		if t.Value == "matches" {
			// the parser compiles the pattern when the right operand is a string literal node
			hasRe := "dyn"
			if strings.HasPrefix(right, "(str ") {
				if pat, err := strconv.Unquote(right[5 : len(right)-1]); err == nil {
					if _, err := regexp.Compile(pat); err != nil {
						p.fail("bad pattern")
					}
					hasRe = "re"
				}
			}
			left = "(matches " + hasRe + " " + left + " " + right + ")"
		} else {
			left = "(bin " + strconv.Quote(t.Value) + " " + left + " " + right + ")"
		}
	}
	if prec == 0 {
		for p.is(lexer.Operator, "?") {
			p.next()
			var e1, e2 string
			if !p.is(lexer.Operator, ":") {
				e1 = p.expr(0)
				p.expect(lexer.Operator, ":")
				e2 = p.expr(0)
			} else {
				p.next()
				e1 = left
				e2 = p.expr(0)
			}
			left = "(cond " + left + " " + e1 + " " + e2 + ")"
		}
	}
	return left
}

func (p *parser) primary() string {
	t := p.cur()
	if t.Kind == lexer.Operator {
		if u, ok := unary[t.Value]; ok {
			p.next()
			x := p.expr(u)
			return p.postfix("(un " + strconv.Quote(t.Value) + " " + x + ")")
		}
	}
	if p.is(lexer.Bracket, "(") {
		p.next()
		x := p.expr(0)
		p.expect(lexer.Bracket, ")")
		return p.postfix(x)
	}
	if t.Kind == lexer.Operator && (t.Value == "#" || t.Value == ".") {
		if p.depth > 0 {
			if t.Value == "#" {
				p.next()
			}
			return p.postfix("(ptr)")
		}
		p.fail("cannot use pointer accessor outside closure")
	}
	return p.primaryExpr()
}

func (p *parser) primaryExpr() string {
	t := p.cur()
	var node string
	switch t.Kind {
	case lexer.Identifier:
		p.next()
		switch t.Value {
		case "true":
			return "(bool true)"
		case "false":
			return "(bool false)"
		case "nil":
			return "(nil)"
		}
		node = p.identifier(t)
	case lexer.Number:
		p.next()
		v := strings.Replace(t.Value, "_", "", -1)
		lower := strings.ToLower(v)
		var n int64
		var err error
		switch {
		case strings.HasPrefix(lower, "0x"):
			n, err = strconv.ParseInt(v, 0, 64)
		case strings.ContainsAny(v, ".eE"):
			f, ferr := strconv.ParseFloat(v, 64)
			if ferr != nil {
				p.fail("invalid float literal")
			}
			return "(float " + strconv.FormatFloat(f, 'g', -1, 64) + ")"
		default:
			n, err = strconv.ParseInt(v, 10, 64)
		}
		if err != nil {
			p.fail("invalid integer literal")
		}
		return fmt.Sprintf("(int %d)", n)
	case lexer.String:
		p.next()
		return "(str " + strconv.Quote(t.Value) + ")"
	default:
		if p.is(lexer.Bracket, "[") {
			node = p.array()
		} else if p.is(lexer.Bracket, "{") {
			node = p.mapLit()
		} else {
			p.fail("unexpected token %v", t)
		}
	}
	return p.postfix(node)
}

func (p *parser) identifier(t lexer.Token) string {
	if p.is(lexer.Bracket, "(") {
		if ar, ok := builtins[t.Value]; ok {
			p.expect(lexer.Bracket, "(")
			args := []string{p.expr(0)}
			if ar == 2 {
				p.expect(lexer.Operator, ",")
				args = append(args, p.closure())
			}
			p.expect(lexer.Bracket, ")")
			return "(builtin " + t.Value + " " + strings.Join(args, " ") + ")"
		}
		args := p.arguments()
		return "(call " + t.Value + " [" + strings.Join(args, " ") + "])"
	}
	ns := ""
	if p.cur().Value == "?." {
		ns = " nilsafe"
	}
	return "(id " + t.Value + ns + ")"
}

func (p *parser) closure() string {
	p.expect(lexer.Bracket, "{")
	p.depth++
	x := p.expr(0)
	p.depth--
	p.expect(lexer.Bracket, "}")
	return "(closure " + x + ")"
}

func (p *parser) arguments() []string {
	p.expect(lexer.Bracket, "(")
	var args []string
	for !p.is(lexer.Bracket, ")") {
		if len(args) > 0 {
			p.expect(lexer.Operator, ",")
		}
		args = append(args, p.expr(0))
	}
	p.expect(lexer.Bracket, ")")
	return args
}

func (p *parser) array() string {
	p.expect(lexer.Bracket, "[")
	var els []string
	for !p.is(lexer.Bracket, "]") {
		if len(els) > 0 {
			p.expect(lexer.Operator, ",")
			if p.is(lexer.Bracket, "]") {
				break
			}
		}
		els = append(els, p.expr(0))
	}
	p.expect(lexer.Bracket, "]")
	return "(arr [" + strings.Join(els, " ") + "])"
}

func (p *parser) mapLit() string {
	p.expect(lexer.Bracket, "{")
	var pairs []string
	for !p.is(lexer.Bracket, "}") {
		if len(pairs) > 0 {
			p.expect(lexer.Operator, ",")
			if p.is(lexer.Bracket, "}") {
				break
			}
			if p.is(lexer.Operator, ",") {
				p.fail("unexpected token")
			}
		}
		var key string
		t := p.cur()
		switch {
		case t.Kind == lexer.Number || t.Kind == lexer.String || t.Kind == lexer.Identifier:
			key = "(str " + strconv.Quote(t.Value) + ")"
			p.next()
		case p.is(lexer.Bracket, "("):
			key = p.expr(0)
		default:
			p.fail("a map key must be a quoted string, a number, a identifier, or an expression enclosed in parentheses")
		}
		p.expect(lexer.Operator, ":")
		val := p.expr(0)
		pairs = append(pairs, "(pair "+key+" "+val+")")
	}
	p.expect(lexer.Bracket, "}")
	return "(map [" + strings.Join(pairs, " ") + "])"
}

func validIdent(s string) bool {
	if s == "" {
		return false
	}
	h, w := utf8.DecodeRuneInString(s)
	if !(h == '_' || h == '$' || unicode.IsLetter(h)) {
		return false
	}
	for _, r := range s[w:] {
		if !(r == '_' || r == '$' || unicode.IsLetter(r) || unicode.IsDigit(r)) {
			return false
		}
	}
	return true
}

func (p *parser) postfix(node string) string {
	nilsafe := false
	for p.cur().Kind == lexer.Operator || p.cur().Kind == lexer.Bracket {
		t := p.cur()
		if t.Value == "." || t.Value == "?." {
			if t.Value == "?." {
				nilsafe = true
			}
			p.next()
			name := p.cur()
			p.next()
			if name.Kind != lexer.Identifier && (name.Kind != lexer.Operator || !validIdent(name.Value)) {
				p.fail("expected name") // like the parser: reported at the token after the name position
			}
			ns := ""
			if nilsafe {
				ns = " nilsafe"
			}
			if p.is(lexer.Bracket, "(") {
				args := p.arguments()
				node = "(meth " + node + " " + name.Value + ns + " [" + strings.Join(args, " ") + "])"
			} else {
				node = "(prop " + node + " " + name.Value + ns + ")"
			}
		} else if t.Kind == lexer.Bracket && t.Value == "[" || t.Kind == lexer.Operator && t.Value == "[" {
			p.next()
			from, to := "_", "_"
			if p.is(lexer.Operator, ":") {
				p.next()
				if !p.is(lexer.Bracket, "]") {
					to = p.expr(0)
				}
				node = "(slice " + node + " " + from + " " + to + ")"
				p.expect(lexer.Bracket, "]")
			} else {
				from = p.expr(0)
				if p.is(lexer.Operator, ":") {
					p.next()
					if !p.is(lexer.Bracket, "]") {
						to = p.expr(0)
					}
					node = "(slice " + node + " " + from + " " + to + ")"
					p.expect(lexer.Bracket, "]")
				} else {
					node = "(idx " + node + " " + from + ")"
					p.expect(lexer.Bracket, "]")
				}
			}
		} else {
			break
		}
	}
	return node
}

// Sexp renders a real syntax tree in the same form.
func Sexp(n ast.Node) string {
	switch x := n.(type) {
	case nil:
		return "_"
	case *ast.NilNode:
		return "(nil)"
	case *ast.IdentifierNode:
		if x.NilSafe {
			return "(id " + x.Value + " nilsafe)"
		}
		return "(id " + x.Value + ")"
	case *ast.IntegerNode:
		return fmt.Sprintf("(int %d)", x.Value)
	case *ast.FloatNode:
		return "(float " + strconv.FormatFloat(x.Value, 'g', -1, 64) + ")"
	case *ast.BoolNode:
		return fmt.Sprintf("(bool %v)", x.Value)
	case *ast.StringNode:
		return "(str " + strconv.Quote(x.Value) + ")"
	case *ast.ConstantNode:
		return fmt.Sprintf("(const %v)", x.Value)
	case *ast.UnaryNode:
		return "(un " + strconv.Quote(x.Operator) + " " + Sexp(x.Node) + ")"
	case *ast.BinaryNode:
		return "(bin " + strconv.Quote(x.Operator) + " " + Sexp(x.Left) + " " + Sexp(x.Right) + ")"
	case *ast.MatchesNode:
		re := "dyn"
		if x.Regexp != nil {
			re = "re"
		}
		return "(matches " + re + " " + Sexp(x.Left) + " " + Sexp(x.Right) + ")"
	case *ast.PropertyNode:
		ns := ""
		if x.NilSafe {
			ns = " nilsafe"
		}
		return "(prop " + Sexp(x.Node) + " " + x.Property + ns + ")"
	case *ast.IndexNode:
		return "(idx " + Sexp(x.Node) + " " + Sexp(x.Index) + ")"
	case *ast.SliceNode:
		f, t := "_", "_"
		if x.From != nil {
			f = Sexp(x.From)
		}
		if x.To != nil {
			t = Sexp(x.To)
		}
		return "(slice " + Sexp(x.Node) + " " + f + " " + t + ")"
	case *ast.MethodNode:
		ns := ""
		if x.NilSafe {
			ns = " nilsafe"
		}
		return "(meth " + Sexp(x.Node) + " " + x.Method + ns + " [" + list(x.Arguments) + "])"
	case *ast.FunctionNode:
		return "(call " + x.Name + " [" + list(x.Arguments) + "])"
	case *ast.BuiltinNode:
		return "(builtin " + x.Name + " " + list(x.Arguments) + ")"
	case *ast.ClosureNode:
		return "(closure " + Sexp(x.Node) + ")"
	case *ast.PointerNode:
		return "(ptr)"
	case *ast.ConditionalNode:
		return "(cond " + Sexp(x.Cond) + " " + Sexp(x.Exp1) + " " + Sexp(x.Exp2) + ")"
	case *ast.ArrayNode:
		return "(arr [" + list(x.Nodes) + "])"
	case *ast.MapNode:
		return "(map [" + list(x.Pairs) + "])"
	case *ast.PairNode:
		return "(pair " + Sexp(x.Key) + " " + Sexp(x.Value) + ")"
	}
	return fmt.Sprintf("(?%T)", n)
}

func list(ns []ast.Node) string {
	var s []string
	for _, n := range ns {
		s = append(s, Sexp(n))
	}
	return strings.Join(s, " ")
}
