// Package henv is the harness environment: one struct type with members of every
// kind the properties mention; every function and method appends to a per-run
// call log so that "exactly once, left to right, only when needed" is observable.
package henv

import (
	"fmt"
	"math"
	"reflect"
	"sort"
	"strings"
)

type Log struct{ Calls []string }

func (l *Log) Add(format string, a ...interface{}) {
	if l != nil {
		l.Calls = append(l.Calls, fmt.Sprintf(format, a...))
	}
}
func (l *Log) String() string { return strings.Join(l.Calls, ";") }

type Obj struct {
	N      int
	Name   string
	Next   *Obj
	L      *Log
	hidden int // unexported: not readable, but "hidden" in O is still true at run time (reflect finds the field)
}

func (o *Obj) Get() int       { o.L.Add("Get@%d", o.N); return o.N }
func (o *Obj) Plus(k int) int { o.L.Add("Plus@%d(%d)", o.N, k); return o.N + k }

// Id has the name of an environment function and another meaning.
func (o *Obj) Id(i int) int { o.L.Add("Id@%d(%d)", o.N, i); return o.N*100 + i }

// Label tolerates a nil receiver (a typed nil pointer still has its methods).
func (o *Obj) Label() string {
	if o == nil {
		return "<none>"
	}
	o.L.Add("Label@%d", o.N)
	return "#" + o.Name
}
func (o *Obj) String() string {
	if o == nil {
		return "<nil>"
	}
	return "obj" + o.Name
}
func (o Obj) Title() string { o.L.Add("Title@%d", o.N); return "<" + o.Name + ">" }
func (o *Obj) Pick(a, b interface{}) interface{} {
	o.L.Add("Pick@%d(%v,%v)", o.N, Norm(a), Norm(b))
	return b
}

// (Obj has an unexported field too: membership by name sees it at run time.)
type MyInt int
type MyStr string

type Env struct {
	B, C    bool
	I, J    int
	F, G    float64
	S, T    string
	A, A2   []int
	FA      []float64
	NN      [][]int
	SA      []string
	AA      []interface{}
	OS      []*Obj
	M       map[string]int
	MA      map[string]interface{}
	O, P    *Obj
	X, Y    interface{}
	OV      Obj  // a struct held by value (no value domain)
	PI      *int // pointer members (no value domain: set by the families that use them)
	PS      *string
	H       int     // boundary values of int
	HF      float64 // boundary values of float64
	I8      int8
	U8      uint8
	I64     int64
	F32     float32
	U       uint
	MI      MyInt
	MS      MyStr
	FnInc   func(int) int
	FnOpAdd func(int, int) int
	L       *Log
}

func (e Env) T1() bool { e.L.Add("T1"); return true }
func (e Env) T2() bool { e.L.Add("T2"); return true }
func (e Env) F1() bool { e.L.Add("F1"); return false }
func (e Env) F2() bool { e.L.Add("F2"); return false }

func (e Env) Id(i int) int             { e.L.Add("Id(%d)", i); return i }
func (e Env) Add(a, b int) int         { e.L.Add("Add(%d,%d)", a, b); return a + b }
func (e Env) Cat(a, b string) string   { e.L.Add("Cat(%q,%q)", a, b); return a + b }
func (e Env) Half(f float64) float64   { e.L.Add("Half(%v)", f); return f / 2 }
func (e Env) GetInt() int              { e.L.Add("GetInt"); return e.I }
func (e Env) IsNil(x interface{}) bool { e.L.Add("IsNil"); return x == nil }
func (e Env) Sum(xs ...int) int {
	e.L.Add("Sum%v", xs)
	s := 0
	for _, x := range xs {
		s += x
	}
	return s
}
func (e Env) Fast(xs ...interface{}) interface{} { e.L.Add("Fast/%d", len(xs)); return len(xs) }
func (e Env) Pack(xs ...interface{}) interface{} { e.L.Add("Pack/%d", len(xs)); return xs }
func (e Env) Pos(i int) bool                     { e.L.Add("Pos(%d)", i); return i > 0 }
func (e Env) TakesI8(x int8) int8                { e.L.Add("TakesI8(%d)", x); return x }
func (e Env) TakesU8(x uint8) uint8              { e.L.Add("TakesU8(%d)", x); return x }
func (e Env) TakesI64(x int64) int64             { e.L.Add("TakesI64(%d)", x); return x }
func (e Env) TakesF32(x float32) float32         { e.L.Add("TakesF32(%v)", x); return x }
func (e Env) TakesF64(x float64) float64         { e.L.Add("TakesF64(%v)", x); return x }
func (e Env) TakesAny(x interface{}) interface{} { e.L.Add("TakesAny(%v)", x); return x }
func (e Env) TakesArr(x []int) int               { e.L.Add("TakesArr(%v)", x); return len(x) }
func (e Env) TakesAnyArr(x []interface{}) int    { e.L.Add("TakesAnyArr/%d", len(x)); return len(x) }
func (e Env) Second(a, b interface{}) interface{} {
	e.L.Add("Second(%v,%v)", Norm(a), Norm(b))
	return b
}
func (e Env) MkArr(n int) []int           { e.L.Add("MkArr(%d)", n); return make([]int, n) }
func (e Env) OpAdd(a, b int) int          { e.L.Add("OpAdd(%d,%d)", a, b); return a + b + 1000 }
func (e Env) OpAddF(a, b float64) float64 { e.L.Add("OpAddF(%v,%v)", a, b); return a + b + 0.5 }
func (e Env) OpCat(a, b string) string    { e.L.Add("OpCat(%q,%q)", a, b); return a + "+" + b }
func (e Env) OpSubS(a, b string) string   { e.L.Add("OpSubS(%q,%q)", a, b); return a + "-" + b }
func (e Env) OpEqObj(a, b *Obj) bool      { e.L.Add("OpEqObj"); return a != nil && b != nil && a.N == b.N }
func (e Env) OpLtObj(a, b *Obj) bool      { e.L.Add("OpLtObj"); return a != nil && b != nil && a.N < b.N }
func (e Env) OpAny(a, b interface{}) interface{} {
	e.L.Add("OpAny(%s,%s)", Norm(a), Norm(b))
	return Norm(a) + "&" + Norm(b)
}
func (e Env) OpAnyEq(a, b interface{}) bool {
	e.L.Add("OpAnyEq(%s,%s)", Norm(a), Norm(b))
	return Norm(a) != Norm(b)
}
func (e Env) Plus(a, b int) int { e.L.Add("Plus(%d,%d)", a, b); return a + b + 7 }
func (e Env) Get(k int) int     { e.L.Add("Get(%d)", k); return k * 3 }
func (e Env) PickV(i int, xs ...interface{}) interface{} {
	e.L.Add("PickV(%d)/%d", i, len(xs))
	if i >= 0 && i < len(xs) {
		return xs[i]
	}
	return nil
}
func (e Env) OpSubMI(a, b MyInt) MyStr {
	e.L.Add("OpSubMI(%d,%d)", a, b)
	return MyStr(fmt.Sprint("span", int(a)-int(b)))
}
func (e Env) OpAddMIS(a MyInt, b MyStr) MyInt {
	e.L.Add("OpAddMIS(%d,%s)", a, b)
	return a + MyInt(len(b))
}
func (e Env) OpNotIn(a, b string) bool {
	e.L.Add("OpNotIn(%q,%q)", a, b)
	return !strings.Contains(b, a)
}
func (e Env) OpSubBoom(a, b int) int {
	e.L.Add("OpSubBoom(%d,%d)", a, b)
	if b == 0 {
		panic("boom")
	}
	return a - b
}
func (e Env) OpIn(a, b string) bool          { e.L.Add("OpIn(%q,%q)", a, b); return strings.Contains(b, a) }
func (e Env) OpAnd(a, b int) bool            { e.L.Add("OpAnd(%d,%d)", a, b); return a != 0 && b != 0 }
func (e Env) OpStr(a, b fmt.Stringer) string { e.L.Add("OpStr"); return a.String() + "~" + b.String() }
func (e Env) Two(a, b int) (int, int)        { return a, b }
func (e Env) NoResult(a, b int)              {}
func (e Env) Three(a, b, c int) int          { return a + b + c }
func (e *Env) PtrOnly() int                  { return 77 }
func (e Env) Boom(i int) int                 { e.L.Add("Boom(%d)", i); panic("boom") }

// Domain of one member: constructors taking the run's log.
type Domain []func(l *Log) interface{}

func c(v interface{}) func(*Log) interface{} { return func(*Log) interface{} { return v } }

func leaf(n int, name string) func(*Log) interface{} {
	return func(l *Log) interface{} { return &Obj{N: n, Name: name, L: l} }
}
func chain(l *Log) interface{} {
	return &Obj{N: 1, Name: "a", L: l, Next: &Obj{N: 2, Name: "b", L: l}}
}

var Domains = map[string]Domain{
	"B":  {c(true), c(false)},
	"C":  {c(false), c(true)},
	"I":  {c(1), c(0), c(3), c(-1)},
	"J":  {c(2), c(0), c(-1)},
	"F":  {c(1.5), c(0.0), c(-2.0)},
	"G":  {c(2.0), c(0.5)},
	"S":  {c("ab"), c(""), c("a")},
	"T":  {c("a"), c("b")},
	"A":  {c([]int{1, 2, 3}), c([]int{}), c([]int{1}), c([]int{3, 1, 0})},
	"A2": {c([]int{2, 0}), c([]int(nil))},
	"FA": {c([]float64{0.5, 1.5, 2, 7.5}), c([]float64{}), c([]float64{0.5, math.NaN(), 0.25})},
	"NN": {c([][]int{{1, 2, 3}, {0}, {}, {2, 2}}), c([][]int{})},
	"SA": {c([]string{"a", "b"}), c([]string{}), c([]string{"ab"})},
	"AA": {c([]interface{}{1, "a", nil}), c([]interface{}{}), c([]interface{}{2.5, true})},
	"OS": {func(l *Log) interface{} {
		return []*Obj{{N: 1, Name: "a", L: l}, {N: 2, Name: "b", L: l, Next: &Obj{N: 3, Name: "c", L: l}}}
	},
		c([]*Obj{}), func(l *Log) interface{} { return []*Obj{{N: 0, Name: "", L: l}} }},
	"M":   {c(map[string]int{"a": 1, "b": 2}), c(map[string]int{})},
	"MA":  {c(map[string]interface{}{"a": 1, "s": "x"}), c(map[string]interface{}{})},
	"O":   {leaf(1, "a"), chain, c((*Obj)(nil))},
	"P":   {c((*Obj)(nil)), leaf(5, "p")},
	"X":   {c(interface{}(1)), c(interface{}("a")), c(interface{}(nil)), c(interface{}(2.5))},
	"Y":   {c(interface{}(2)), c(interface{}(1.0))},
	"H":   {c(1 << 32), c(math.MaxInt64), c(math.MinInt64), c(1000)},
	"HF":  {c(float64(1 << 53)), c(-float64(1<<53) - 2), c(0.1), c(math.NaN())},
	"I8":  {c(int8(1)), c(int8(-128)), c(int8(0))},
	"U8":  {c(uint8(1)), c(uint8(200)), c(uint8(0))},
	"I64": {c(int64(1)), c(int64(-3)), c(int64(0))},
	"F32": {c(float32(1.5)), c(float32(0)), c(float32(16777216))},
	"U":   {c(uint(1)), c(uint(0))},
	"MI":  {c(MyInt(1)), c(MyInt(0))},
	"MS":  {c(MyStr("a")), c(MyStr(""))},
}

// Val chooses a domain index per member; unmentioned members take index 0.
type Val map[string]int

func (v Val) String() string {
	var ks []string
	for k := range v {
		ks = append(ks, k)
	}
	sort.Strings(ks)
	var sb strings.Builder
	for _, k := range ks {
		fmt.Fprintf(&sb, "%s#%d ", k, v[k])
	}
	return strings.TrimSpace(sb.String())
}

// Describe renders the chosen values.
func (v Val) Describe() string {
	var ks []string
	for k := range v {
		ks = append(ks, k)
	}
	sort.Strings(ks)
	var sb strings.Builder
	l := &Log{}
	for _, k := range ks {
		fmt.Fprintf(&sb, "%s=%s ", k, Norm(Domains[k][v[k]](l)))
	}
	return strings.TrimSpace(sb.String())
}

// Make builds a fresh environment (with a fresh log) for the valuation. Only the
// members named by the valuation are set; everything else keeps its zero value.
func Make(v Val) *Env {
	l := &Log{}
	e := &Env{L: l}
	for name, i := range v {
		val := Domains[name][i](l)
		switch name {
		case "B":
			e.B = val.(bool)
		case "C":
			e.C = val.(bool)
		case "I":
			e.I = val.(int)
		case "J":
			e.J = val.(int)
		case "F":
			e.F = val.(float64)
		case "G":
			e.G = val.(float64)
		case "S":
			e.S = val.(string)
		case "T":
			e.T = val.(string)
		case "A":
			e.A = val.([]int)
		case "A2":
			e.A2 = val.([]int)
		case "FA":
			e.FA = val.([]float64)
		case "NN":
			e.NN = val.([][]int)
		case "SA":
			e.SA = val.([]string)
		case "AA":
			e.AA = val.([]interface{})
		case "OS":
			e.OS = val.([]*Obj)
		case "M":
			e.M = val.(map[string]int)
		case "MA":
			e.MA = val.(map[string]interface{})
		case "O":
			e.O = val.(*Obj)
		case "P":
			e.P = val.(*Obj)
		case "X":
			e.X = val
		case "Y":
			e.Y = val
		case "H":
			e.H = val.(int)
		case "HF":
			e.HF = val.(float64)
		case "I8":
			e.I8 = val.(int8)
		case "U8":
			e.U8 = val.(uint8)
		case "I64":
			e.I64 = val.(int64)
		case "F32":
			e.F32 = val.(float32)
		case "U":
			e.U = val.(uint)
		case "MI":
			e.MI = val.(MyInt)
		case "MS":
			e.MS = val.(MyStr)
		default:
			panic("henv: unknown member " + name)
		}
	}
	e.FnInc = func(i int) int { l.Add("FnInc(%d)", i); return i + 1 }
	e.FnOpAdd = func(a, b int) int { l.Add("FnOpAdd(%d,%d)", a, b); return a + b + 100 }
	return e
}

// MakeFull is Make with every unmentioned member set to the first value of its domain.
func MakeFull(v Val) *Env {
	full := Val{}
	for name := range Domains {
		full[name] = 0
	}
	for k, i := range v {
		full[k] = i
	}
	return Make(full)
}

// Valuations enumerates the full product of the domains of the given members.
func Valuations(vars []string) []Val {
	out := []Val{{}}
	for _, name := range vars {
		d, ok := Domains[name]
		if !ok {
			panic("henv: member without a value domain: " + name)
		}
		var next []Val
		for _, v := range out {
			for i := range d {
				nv := Val{}
				for k, x := range v {
					nv[k] = x
				}
				nv[name] = i
				next = append(next, nv)
			}
		}
		out = next
	}
	return out
}

// AsMap returns the environment as a map with the same members (fields and bound methods).
func AsMap(e *Env) map[string]interface{} {
	m := map[string]interface{}{}
	rv := reflect.ValueOf(*e)
	rt := rv.Type()
	for i := 0; i < rt.NumField(); i++ {
		m[rt.Field(i).Name] = rv.Field(i).Interface()
	}
	for i := 0; i < rt.NumMethod(); i++ {
		m[rt.Method(i).Name] = rv.Method(i).Interface()
	}
	return m
}

// AsMapOnly is AsMap restricted to the given member names (the only ones a program
// that mentions exactly these names can look up).
func AsMapOnly(e *Env, names []string) map[string]interface{} {
	m := make(map[string]interface{}, len(names))
	rv := reflect.ValueOf(*e)
	for _, n := range names {
		if f := rv.FieldByName(n); f.IsValid() {
			m[n] = f.Interface()
		} else if meth := rv.MethodByName(n); meth.IsValid() {
			m[n] = meth.Interface()
		}
	}
	return m
}
