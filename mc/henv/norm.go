package henv

import (
	"fmt"
	"math"
	"reflect"
	"sort"
	"strconv"
	"strings"
)

// Norm is the canonical form used to compare results: numbers with their kind,
// sequences element by element (whatever the slice type), maps key-wise,
// nil pointers/interfaces as nil, pointers to structs by content.
func Norm(v interface{}) string {
	var sb strings.Builder
	norm(&sb, reflect.ValueOf(v), 0)
	return sb.String()
}

func norm(sb *strings.Builder, v reflect.Value, depth int) {
	if !v.IsValid() {
		sb.WriteString("nil")
		return
	}
	if depth > 12 {
		sb.WriteString("...")
		return
	}
	switch v.Kind() {
	case reflect.Bool:
		sb.WriteString(strconv.FormatBool(v.Bool()))
	case reflect.Int, reflect.Int8, reflect.Int16, reflect.Int32, reflect.Int64:
		fmt.Fprintf(sb, "%s(%d)", v.Kind(), v.Int())
	case reflect.Uint, reflect.Uint8, reflect.Uint16, reflect.Uint32, reflect.Uint64:
		fmt.Fprintf(sb, "%s(%d)", v.Kind(), v.Uint())
	case reflect.Float32, reflect.Float64:
		f := v.Float()
		if f == 0 {
			f = 0 // -0 and +0 are equal values
		}
		if math.IsNaN(f) {
			fmt.Fprintf(sb, "%s(NaN)", v.Kind())
		} else {
			fmt.Fprintf(sb, "%s(%s)", v.Kind(), strconv.FormatFloat(f, 'g', -1, 64))
		}
	case reflect.String:
		sb.WriteString(strconv.Quote(v.String()))
	case reflect.Slice, reflect.Array:
		sb.WriteString("[")
		for i := 0; i < v.Len(); i++ {
			if i > 0 {
				sb.WriteString(",")
			}
			norm(sb, v.Index(i), depth+1)
		}
		sb.WriteString("]")
	case reflect.Map:
		var ents []string
		it := v.MapRange()
		for it.Next() {
			var e strings.Builder
			norm(&e, it.Key(), depth+1)
			e.WriteString(":")
			norm(&e, it.Value(), depth+1)
			ents = append(ents, e.String())
		}
		sort.Strings(ents)
		sb.WriteString("{" + strings.Join(ents, ",") + "}")
	case reflect.Interface:
		if v.IsNil() {
			sb.WriteString("nil")
		} else {
			norm(sb, v.Elem(), depth+1)
		}
	case reflect.Ptr:
		if v.IsNil() {
			sb.WriteString("nil")
		} else {
			sb.WriteString("&")
			norm(sb, v.Elem(), depth+1)
		}
	case reflect.Struct:
		sb.WriteString(v.Type().Name() + "{")
		for i := 0; i < v.NumField(); i++ {
			f := v.Type().Field(i)
			if f.Type == reflect.TypeOf((*Log)(nil)) {
				continue
			}
			sb.WriteString(f.Name + "=")
			norm(sb, v.Field(i), depth+1)
			sb.WriteString(";")
		}
		sb.WriteString("}")
	case reflect.Func:
		sb.WriteString("func")
	default:
		fmt.Fprintf(sb, "%s(?)", v.Kind())
	}
}
