package gen

// Leaf returns the simplest closed leaf of type t (first rule in grammar order), or nil.
func (g *Grammar) Leaf(t Ty) *Expr {
	for _, r := range g.Rules {
		if r.Out == t && len(r.In) == 0 && r.NeedElem == TNone {
			return &Expr{R: r}
		}
	}
	return nil
}

// closed reports whether e has no '#' reference outside a closure body.
func closed(e *Expr, depth int) bool {
	if e.R.NeedElem != TNone && depth == 0 {
		return false
	}
	for i, k := range e.Kids {
		d := depth
		if e.R.In[i].Closure >= 0 {
			d++
		}
		if !closed(k, d) {
			return false
		}
	}
	return true
}

type pathExpr struct {
	path []int
	e    *Expr
}

func subs(e *Expr, path []int, out *[]pathExpr) {
	*out = append(*out, pathExpr{append([]int{}, path...), e})
	for i, k := range e.Kids {
		subs(k, append(path, i), out)
	}
}

func replaceAt(e *Expr, path []int, n *Expr) *Expr {
	if len(path) == 0 {
		return n
	}
	c := &Expr{R: e.R, Kids: append([]*Expr{}, e.Kids...)}
	c.Kids[path[0]] = replaceAt(e.Kids[path[0]], path[1:], n)
	return c
}

// Shrink reduces a failing expression: it repeatedly replaces the expression by a
// closed proper sub-expression, or a subtree by the simplest leaf of its type, or
// a subtree by one of its own children of the same type, as long as fails() holds.
// The result is a local minimum; the procedure is deterministic.
func (g *Grammar) Shrink(e *Expr, fails func(*Expr) bool) *Expr {
	budget := 400
	for changed := true; changed && budget > 0; {
		changed = false
		var all []pathExpr
		subs(e, nil, &all)
		// 1. whole expression -> proper closed sub-expression (smallest first)
		for _, pe := range all {
			if len(pe.path) == 0 || !closed(pe.e, 0) {
				continue
			}
			budget--
			if fails(pe.e) {
				e, changed = pe.e, true
				break
			}
		}
		if changed {
			continue
		}
		// 2. subtree -> child of the same type, 3. subtree -> simplest leaf
		for _, pe := range all {
			if len(pe.e.Kids) == 0 {
				continue
			}
			var desc []pathExpr
			subs(pe.e, nil, &desc)
			for _, d := range desc {
				if len(d.path) == 0 || d.e.R.Out != pe.e.R.Out || crossesClosure(pe.e, d.path) {
					continue
				}
				c := replaceAt(e, pe.path, d.e)
				budget--
				if fails(c) {
					e, changed = c, true
					break
				}
			}
			if changed {
				break
			}
			if l := g.Leaf(pe.e.R.Out); l != nil && len(pe.path) > 0 {
				c := replaceAt(e, pe.path, l)
				budget--
				if fails(c) {
					e, changed = c, true
					break
				}
			}
		}
		if changed {
			continue
		}
		// 4. leaf -> simplest leaf of its type
		for _, pe := range all {
			if len(pe.e.Kids) != 0 || len(pe.path) == 0 {
				continue
			}
			l := g.Leaf(pe.e.R.Out)
			if l == nil || l.R == pe.e.R {
				continue
			}
			c := replaceAt(e, pe.path, l)
			budget--
			if fails(c) {
				e, changed = c, true
				break
			}
		}
	}
	return e
}

// crossesClosure reports whether the path from e descends into a closure body.
func crossesClosure(e *Expr, path []int) bool {
	for _, i := range path {
		if e.R.In[i].Closure >= 0 {
			return true
		}
		e = e.Kids[i]
	}
	return false
}
