package gen

import "strconv"

// anchorIndex returns the index in r.Fmt of the token that carries the node's
// source location (DESIGN.md Appendix D), or -1 when the node kind has none.
func anchorIndex(r *Rule) int {
	switch r.Op {
	case "bin":
		return 3 // "%s OP %s": the operator
	case "prop", "method":
		return 3 // "%s.name": the member name
	case "prop?", "method?":
		return 4 // "%s?.name"
	case "index", "slice":
		return 2 // "%s[...": the bracket
	case "cond":
		return 3 // "%s ? %s : %s": the question mark
	}
	return 0
}

// PrintAnchors prints e with safe parentheses; with multi every space of the
// single-line form becomes a line break plus indentation. It returns the text and,
// for every node path ("" is the root, ".0.1" the second child of the first child),
// the 1-based line and 0-based rune column of the node's location token.
func (e *Expr) PrintAnchors(multi bool) (string, map[string][2]int) {
	return e.PrintAnchorsWith(multi, nil)
}

// PrintAnchorsWith is PrintAnchors with a callback that may drop the parentheses around a child
// (used for layouts with minimal parentheses; the caller validates the text against the reference parser).
func (e *Expr) PrintAnchorsWith(multi bool, noParen func(parent, kid *Expr, slot int) bool) (string, map[string][2]int) {
	p := &aprinter{multi: multi, line: 1, anchors: map[string][2]int{}, noParen: noParen}
	p.print(e, "")
	return string(p.out), p.anchors
}

type aprinter struct {
	out       []rune
	multi     bool
	line, col int
	anchors   map[string][2]int
	noParen   func(parent, kid *Expr, slot int) bool
}

func (p *aprinter) emit(c rune) {
	if c == ' ' && p.multi {
		p.out = append(p.out, '\n', ' ')
		p.line++
		p.col = 1
		return
	}
	p.out = append(p.out, c)
	if c == '\n' {
		p.line++
		p.col = 0
	} else {
		p.col++
	}
}

func (p *aprinter) print(e *Expr, path string) {
	f := []rune(e.R.Fmt)
	ai := anchorIndex(e.R)
	k := 0
	// positions in Fmt are counted in bytes of the ASCII formats; literal sources may be non-ASCII but start at 0
	bi := 0
	for i := 0; i < len(f); i++ {
		if bi == ai {
			// skip a space that the multi-line layout turns into a line break: the token starts after it
			p.anchors[path] = [2]int{p.line, p.col}
		}
		if f[i] == '%' && i+1 < len(f) && f[i+1] == 's' {
			kid := e.Kids[k]
			par := e.R.In[k].Operand && !kid.R.Atom || e.R.In[k].Postfix && kid.R.Op == "lit"
			if par && p.noParen != nil && p.noParen(e, kid, k) {
				par = false
			}
			if par {
				p.emit('(')
			}
			p.print(kid, path+"."+strconv.Itoa(k))
			if par {
				p.emit(')')
			}
			k++
			i++
			bi += 2
			continue
		}
		p.emit(f[i])
		bi++
	}
}
