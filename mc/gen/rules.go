package gen

import (
	"fmt"
	"strings"
)

// Constructors for rules. Op codes are interpreted by package ref.

func op(t Ty) Slot       { return Slot{T: t, Operand: true, Closure: -1} }
func arg(t Ty) Slot      { return Slot{T: t, Closure: -1} }
func recvSlot(t Ty) Slot { return Slot{T: t, Operand: true, Postfix: true, Closure: -1} }

// Lit is a literal leaf; src is its source text, val its Go value.
func Lit(src string, t Ty, val interface{}) *Rule {
	return &Rule{Op: "lit", Arg: src, Out: t, Atom: true, Fmt: src, Extra: val}
}

// Var is an environment member read.
func Var(name string, t Ty) *Rule {
	return &Rule{Op: "var", Arg: name, Out: t, Atom: true, Fmt: name}
}

// Un is a unary operator.
func Un(o string, in, out Ty) *Rule {
	sp := ""
	if o == "not" {
		sp = " "
	}
	return &Rule{Op: "un", Arg: o, Out: out, In: []Slot{op(in)}, Fmt: o + sp + "%s"}
}

// Bin is a binary operator.
func Bin(o string, l, r, out Ty) *Rule {
	return &Rule{Op: "bin", Arg: o, Out: out, In: []Slot{op(l), op(r)}, Fmt: "%s " + o + " %s"}
}

// Cond is the ternary conditional on type t.
func Cond(t Ty) *Rule {
	return &Rule{Op: "cond", Out: t, In: []Slot{op(TBool), op(t), op(t)}, Fmt: "%s ? %s : %s"}
}

// CondMixed is a conditional whose branches have different static types.
func CondMixed(t1, t2, out Ty) *Rule {
	return &Rule{Op: "cond", Out: out, In: []Slot{op(TBool), op(t1), op(t2)}, Fmt: "%s ? %s : %s"}
}

// Call is a call of an environment function.
func Call(name string, out Ty, args ...Ty) *Rule {
	r := &Rule{Op: "call", Arg: name, Out: out, Atom: true}
	f := make([]string, len(args))
	for i, a := range args {
		r.In = append(r.In, arg(a))
		f[i] = "%s"
	}
	r.Fmt = name + "(" + strings.Join(f, ", ") + ")"
	return r
}

// Method is a method call on a receiver expression.
func Method(recv Ty, name string, out Ty, nilsafe bool, args ...Ty) *Rule {
	r := &Rule{Op: "method", Arg: name, Out: out, Atom: true, In: []Slot{recvSlot(recv)}}
	f := make([]string, len(args))
	for i, a := range args {
		r.In = append(r.In, arg(a))
		f[i] = "%s"
	}
	dot := "."
	if nilsafe {
		dot = "?."
		r.Op = "method?"
	}
	r.Fmt = "%s" + dot + name + "(" + strings.Join(f, ", ") + ")"
	return r
}

// Prop is a property access; with nilsafe it is written ?. .
func Prop(recv Ty, name string, out Ty, nilsafe bool) *Rule {
	r := &Rule{Op: "prop", Arg: name, Out: out, Atom: true, In: []Slot{recvSlot(recv)}, Fmt: "%s." + name}
	if nilsafe {
		r.Op, r.Fmt = "prop?", "%s?."+name
	}
	return r
}

// DotProp is the closure shorthand .Name (== #.Name).
func DotProp(name string, out Ty) *Rule {
	return &Rule{Op: "dotprop", Arg: name, Out: out, Atom: true, NeedElem: TObj, Fmt: "." + name}
}

// Index is e[i].
func Index(recv, idx, out Ty) *Rule {
	return &Rule{Op: "index", Out: out, Atom: true, In: []Slot{recvSlot(recv), arg(idx)}, Fmt: "%s[%s]"}
}

// Slice forms: "ft" a[i:j], "f" a[i:], "t" a[:j], "" a[:]
func Slice(form string, t Ty) *Rule {
	r := &Rule{Op: "slice", Arg: form, Out: t, Atom: true, In: []Slot{recvSlot(t)}}
	switch form {
	case "ft":
		r.In = append(r.In, arg(TInt), arg(TInt))
		r.Fmt = "%s[%s:%s]"
	case "f":
		r.In = append(r.In, arg(TInt))
		r.Fmt = "%s[%s:]"
	case "t":
		r.In = append(r.In, arg(TInt))
		r.Fmt = "%s[:%s]"
	default:
		r.Fmt = "%s[:]"
	}
	return r
}

// Builtin is one of the closure builtins over an array type.
func Builtin(name string, arr, body, out Ty) *Rule {
	return &Rule{Op: "builtin", Arg: name, Out: out, Atom: true,
		In: []Slot{arg(arr), {T: body, Closure: 0}}, Fmt: name + "(%s, {%s})"}
}

// Len is len(x).
func Len(t Ty) *Rule {
	return &Rule{Op: "len", Out: TInt, Atom: true, In: []Slot{arg(t)}, Fmt: "len(%s)"}
}

// Hash is the '#' leaf of element type t.
func Hash(t Ty) *Rule {
	return &Rule{Op: "hash", Out: t, Atom: true, NeedElem: t, Fmt: "#"}
}

// HashProp is .Name inside a closure over ObjArr.
func HashProp(name string, out Ty) *Rule {
	return &Rule{Op: "hashprop", Arg: name, Out: out, Atom: true, NeedElem: TObj, Fmt: "." + name}
}

// Arr is an array literal with the given element types (result is []interface{}).
func Arr(elems ...Ty) *Rule {
	r := &Rule{Op: "arr", Out: TAnyArr, Atom: true}
	f := make([]string, len(elems))
	for i, a := range elems {
		r.In = append(r.In, arg(a))
		f[i] = "%s"
	}
	r.Fmt = "[" + strings.Join(f, ", ") + "]"
	return r
}

// ArrAs is an array literal given another harness type (e.g. int literals seen as IntArr).
func ArrAs(out Ty, elems ...Ty) *Rule {
	r := Arr(elems...)
	r.Out = out
	return r
}

// MapLit is a map literal with fixed identifier keys.
func MapLit(keys []string, vals ...Ty) *Rule {
	r := &Rule{Op: "map", Arg: strings.Join(keys, ","), Out: TAnyMap, Atom: true}
	f := make([]string, len(vals))
	for i, a := range vals {
		r.In = append(r.In, arg(a))
		f[i] = keys[i] + ": %s"
	}
	r.Fmt = "{" + strings.Join(f, ", ") + "}"
	return r
}

// MapComputed is a map literal whose keys are given by pattern: an identifier is a fixed key (one
// value operand), "*" is a parenthesised computed string key (a key operand, then a value operand).
func MapComputed(pattern []string, vals ...Ty) *Rule {
	r := &Rule{Op: "mapc", Arg: strings.Join(pattern, ","), Out: TAnyMap, Atom: true}
	var f []string
	k := 0
	for _, p := range pattern {
		if p == "*" {
			r.In = append(r.In, arg(TStr), arg(vals[k]))
			f = append(f, "(%s): %s")
		} else {
			r.In = append(r.In, arg(vals[k]))
			f = append(f, p+": %s")
		}
		k++
	}
	r.Fmt = "{" + strings.Join(f, ", ") + "}"
	return r
}

func (r *Rule) String() string { return fmt.Sprintf("%s:%s", r.Op, r.Arg) }

// implicit dependencies of harness functions on members
var implicitDeps = map[string][]string{"GetInt": {"I"}}

// Vars returns the names of the environment members whose value the expression
// depends on (in first-use order).
func Vars(e *Expr) []string {
	var out []string
	seen := map[string]bool{}
	add := func(n string) {
		if !seen[n] {
			seen[n] = true
			out = append(out, n)
		}
	}
	e.Walk(func(x *Expr) {
		if x.R.Op == "var" {
			add(x.R.Arg)
		}
		if x.R.Op == "call" {
			for _, d := range implicitDeps[x.R.Arg] {
				add(d)
			}
		}
	})
	return out
}

// Names returns every top-level name the expression mentions (members and functions).
func Names(e *Expr) []string {
	var out []string
	seen := map[string]bool{}
	e.Walk(func(x *Expr) {
		if (x.R.Op == "var" || x.R.Op == "call") && !seen[x.R.Arg] {
			seen[x.R.Arg] = true
			out = append(out, x.R.Arg)
		}
	})
	for _, v := range Vars(e) {
		if !seen[v] {
			seen[v] = true
			out = append(out, v)
		}
	}
	return out
}
