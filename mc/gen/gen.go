// Package gen is a typed small-scope enumerator of expr programs: a grammar is a
// list of rules over harness types; Space(nt,size) is the finite set of all
// expressions of exactly `size` nodes, addressable by index (so that it can be
// sharded over workers and the first counterexample is the smallest).
package gen

import (
	"fmt"
	"strings"
)

// Ty is a harness type.
type Ty int

const (
	TNone Ty = iota // "no enclosing closure"
	TBool
	TInt
	TFloat
	TStr
	TIntArr
	TStrArr
	TAnyArr
	TObjArr
	TMap    // map[string]int
	TAnyMap // map[string]interface{}
	TObj    // *Obj
	TNil
	TAny
	TI8 // extra numeric kinds, used by C03/C15 alphabets
	TU8
	TI64
	TF32
	TU
	TMyInt
	TMyStr
	TFunc
	TFloatArr
)

var tyNames = map[Ty]string{TNone: "-", TBool: "Bool", TInt: "Int", TFloat: "Float", TStr: "Str", TIntArr: "IntArr",
	TStrArr: "StrArr", TAnyArr: "AnyArr", TObjArr: "ObjArr", TMap: "Map", TAnyMap: "AnyMap", TObj: "Obj", TNil: "Nil", TAny: "Any",
	TI8: "I8", TU8: "U8", TI64: "I64", TF32: "F32", TU: "U", TMyInt: "MyInt", TMyStr: "MyStr", TFunc: "Func", TFloatArr: "FloatArr"}

func (t Ty) String() string { return tyNames[t] }

// Elem returns the element type of an array type (the type of '#').
func Elem(t Ty) Ty {
	switch t {
	case TIntArr:
		return TInt
	case TStrArr:
		return TStr
	case TAnyArr:
		return TAny
	case TObjArr:
		return TObj
	case TFloatArr:
		return TFloat
	}
	return TNone
}

// NT is a nonterminal: a result type inside a closure whose '#' has type Elem.
type NT struct {
	T    Ty
	Elem Ty
}

// Slot describes one child position of a rule.
type Slot struct {
	T       Ty
	Operand bool // printed as an operand of an operator/postfix: parenthesised unless atomic
	Postfix bool // receiver of a postfix form: a literal receiver needs parentheses (the parser gives literals no postfix)
	Closure int  // >=0: this slot is a closure body whose '#' ranges over the array in slot Closure; -1 otherwise
}

// Rule is one production.
type Rule struct {
	Op       string // semantic operation (interpreted by package ref)
	Arg      string // operator spelling, member/function name or literal source text
	Out      Ty
	In       []Slot
	Atom     bool // primary expression (never needs parentheses as an operand)
	NeedElem Ty   // != TNone: allowed only inside a closure whose '#' has this type
	Fmt      string
	Extra    interface{} // literal value etc.
}

// Expr is an expression tree over rules.
type Expr struct {
	R    *Rule
	Kids []*Expr
}

func (e *Expr) Size() int {
	n := 1
	for _, k := range e.Kids {
		n += k.Size()
	}
	return n
}

// String prints the expression with "safe" parentheses: every non-atomic operand
// of an operator or postfix form is parenthesised, so the text does not depend
// on the precedence table (which C11 checks separately).
func (e *Expr) String() string {
	var sb strings.Builder
	e.print(&sb)
	return sb.String()
}

func (e *Expr) print(sb *strings.Builder) {
	f := e.R.Fmt
	k := 0
	for i := 0; i < len(f); i++ {
		if f[i] == '%' && i+1 < len(f) && f[i+1] == 's' {
			kid := e.Kids[k]
			par := e.R.In[k].Operand && !kid.R.Atom || e.R.In[k].Postfix && kid.R.Op == "lit"
			if par {
				sb.WriteByte('(')
			}
			kid.print(sb)
			if par {
				sb.WriteByte(')')
			}
			k++
			i++
			continue
		}
		sb.WriteByte(f[i])
	}
}

// Walk calls f for e and every sub-expression (pre-order).
func (e *Expr) Walk(f func(*Expr)) {
	f(e)
	for _, k := range e.Kids {
		k.Walk(f)
	}
}

// Grammar is a rule list with memoised enumeration tables.
type Grammar struct {
	Rules  []*Rule
	tables map[tkey][]*Expr
	counts map[tkey]int64
}

type tkey struct {
	nt   NT
	size int
}

func NewGrammar(rules []*Rule) *Grammar {
	return &Grammar{Rules: rules, tables: map[tkey][]*Expr{}, counts: map[tkey]int64{}}
}

func (g *Grammar) applicable(r *Rule, nt NT) bool {
	if r.Out != nt.T {
		return false
	}
	if r.NeedElem != TNone && nt.Elem != r.NeedElem {
		return false
	}
	return true
}

// kidNT returns the nonterminal of slot i of r inside nt, given the array-slot's type is static.
func kidNT(r *Rule, i int, nt NT) NT {
	s := r.In[i]
	if s.Closure >= 0 {
		return NT{T: s.T, Elem: Elem(r.In[s.Closure].T)}
	}
	return NT{T: s.T, Elem: nt.Elem}
}

// compositions of n into k positive parts
func compositions(n, k int, f func([]int)) {
	parts := make([]int, k)
	var rec func(i, left int)
	rec = func(i, left int) {
		if i == k-1 {
			if left >= 1 {
				parts[i] = left
				f(parts)
			}
			return
		}
		for p := 1; p <= left-(k-1-i); p++ {
			parts[i] = p
			rec(i+1, left-p)
		}
	}
	if k == 0 {
		if n == 0 {
			f(parts)
		}
		return
	}
	rec(0, n)
}

// Count returns the number of expressions of exactly size nodes for nt.
func (g *Grammar) Count(nt NT, size int) int64 {
	if size < 1 {
		return 0
	}
	k := tkey{nt, size}
	if c, ok := g.counts[k]; ok {
		return c
	}
	var total int64
	for _, r := range g.Rules {
		if !g.applicable(r, nt) {
			continue
		}
		if len(r.In) == 0 {
			if size == 1 {
				total++
			}
			continue
		}
		compositions(size-1, len(r.In), func(p []int) {
			c := int64(1)
			for i := range r.In {
				c *= g.Count(kidNT(r, i, nt), p[i])
				if c == 0 {
					return
				}
			}
			total += c
		})
	}
	g.counts[k] = total
	return total
}

// Table materialises all expressions of exactly size nodes for nt (memoised).
func (g *Grammar) Table(nt NT, size int) []*Expr {
	k := tkey{nt, size}
	if t, ok := g.tables[k]; ok {
		return t
	}
	sp := g.Space(nt, size)
	t := make([]*Expr, sp.Total)
	for i := int64(0); i < sp.Total; i++ {
		t[i] = sp.At(i)
	}
	g.tables[k] = t
	return t
}

type part struct {
	r      *Rule
	tables [][]*Expr
	count  int64
	offset int64
}

// Space is an indexable set of expressions. At is safe for concurrent use.
type Space struct {
	parts []part
	Total int64
}

// Space builds the indexable space of all expressions of exactly `size` nodes.
// Sub-expression tables are materialised (they are strictly smaller).
func (g *Grammar) Space(nt NT, size int) *Space {
	sp := &Space{}
	for _, r := range g.Rules {
		if !g.applicable(r, nt) {
			continue
		}
		if len(r.In) == 0 {
			if size == 1 {
				sp.parts = append(sp.parts, part{r: r, count: 1, offset: sp.Total})
				sp.Total++
			}
			continue
		}
		r := r
		compositions(size-1, len(r.In), func(p []int) {
			c := int64(1)
			for i := range r.In {
				c *= g.Count(kidNT(r, i, nt), p[i])
				if c == 0 {
					return
				}
			}
			tabs := make([][]*Expr, len(r.In))
			for i := range r.In {
				tabs[i] = g.Table(kidNT(r, i, nt), p[i])
			}
			sp.parts = append(sp.parts, part{r: r, tables: tabs, count: c, offset: sp.Total})
			sp.Total += c
		})
	}
	return sp
}

// At returns the i-th expression of the space.
func (sp *Space) At(i int64) *Expr {
	lo, hi := 0, len(sp.parts)-1
	for lo < hi {
		mid := (lo + hi + 1) / 2
		if sp.parts[mid].offset <= i {
			lo = mid
		} else {
			hi = mid - 1
		}
	}
	p := &sp.parts[lo]
	i -= p.offset
	e := &Expr{R: p.r}
	if len(p.tables) > 0 {
		e.Kids = make([]*Expr, len(p.tables))
		for k := len(p.tables) - 1; k >= 0; k-- {
			n := int64(len(p.tables[k]))
			e.Kids[k] = p.tables[k][i%n]
			i /= n
		}
	}
	return e
}

func (nt NT) String() string { return fmt.Sprintf("%v/%v", nt.T, nt.Elem) }
