// Package vmstep single-steps the real VM through its debug seam (vm.Debug()): the
// VM blocks on an unbuffered channel before every instruction and reports ip after
// it. The two channels are unexported; they are located by TYPE through reflection
// (robust to renaming). Between two steps the VM goroutine is parked on the channel,
// so reading Stack()/Scope() and the private fields is race free.
package vmstep

import (
	"fmt"
	"reflect"
	"unsafe"

	"github.com/antonmedv/expr/vm"
)

type result struct {
	out interface{}
	err error
}

// Stepper drives one run of a debug VM.
type Stepper struct {
	VM   *vm.VM
	prog *vm.Program
	step chan struct{}
	curr chan int
	done chan result
	IP   int // ip after the last completed instruction
	Done bool
	Out  interface{}
	Err  error
	fin  bool // the VM reported ip >= len: it will close its channels
}

func field(v *vm.VM, t reflect.Type) reflect.Value {
	rv := reflect.ValueOf(v).Elem()
	for i := 0; i < rv.NumField(); i++ {
		f := rv.Field(i)
		if f.Type() == t {
			return reflect.NewAt(f.Type(), unsafe.Pointer(f.UnsafeAddr())).Elem()
		}
	}
	return reflect.Value{}
}

// Available reports whether the debug seam was found.
func Available() bool {
	v := vm.Debug()
	return field(v, reflect.TypeOf((chan struct{})(nil))).IsValid() && field(v, reflect.TypeOf((chan int)(nil))).IsValid()
}

// Start begins a run; no instruction has executed yet.
func Start(p *vm.Program, env interface{}) (*Stepper, error) {
	v := vm.Debug()
	sf := field(v, reflect.TypeOf((chan struct{})(nil)))
	cf := field(v, reflect.TypeOf((chan int)(nil)))
	if !sf.IsValid() || !cf.IsValid() {
		return nil, fmt.Errorf("debug seam not found")
	}
	s := &Stepper{VM: v, prog: p, step: sf.Interface().(chan struct{}), curr: cf.Interface().(chan int), done: make(chan result, 1)}
	go func() {
		out, err := v.Run(p, env)
		s.done <- result{out, err}
	}()
	if len(p.Bytecode) == 0 {
		s.finish(<-s.done)
	}
	return s, nil
}

func (s *Stepper) finish(r result) {
	s.Done, s.Out, s.Err = true, r.out, r.err
}

// Step executes exactly one instruction. It returns false when the run is over
// (normally or by failure); then Done/Out/Err are set.
func (s *Stepper) Step() bool {
	if s.Done {
		return false
	}
	if s.fin {
		s.finish(<-s.done)
		return false
	}
	select {
	case s.step <- struct{}{}:
	case r := <-s.done:
		s.finish(r)
		return false
	}
	select {
	case ip, ok := <-s.curr:
		if !ok {
			s.finish(<-s.done)
			return false
		}
		s.IP = ip
		if ip >= len(s.prog.Bytecode) || ip < 0 {
			s.fin = true
		}
		return true
	case r := <-s.done:
		s.finish(r)
		return false
	}
}

// Finish lets the run complete without observing further steps.
func (s *Stepper) Finish() {
	for s.Step() {
	}
}

// Int reads an unexported int field of the VM by name (ok=false if absent).
func (s *Stepper) Int(name string) (int, bool) {
	f := reflect.ValueOf(s.VM).Elem().FieldByName(name)
	if !f.IsValid() || f.Kind() != reflect.Int {
		return 0, false
	}
	return int(f.Int()), true
}

// ScopeDepth reads the number of open scopes (len of the unexported scope slice), -1 if not found.
func (s *Stepper) ScopeDepth() int {
	rv := reflect.ValueOf(s.VM).Elem()
	t := reflect.TypeOf([]vm.Scope(nil))
	for i := 0; i < rv.NumField(); i++ {
		if rv.Field(i).Type() == t {
			return rv.Field(i).Len()
		}
	}
	return -1
}
