// Package sched is a stateless, preemption-bounded explorer (iterative context
// bounding, Musuvathi & Qadeer) over cooperative threads. A thread is anything that
// can be asked whether it is enabled and to perform exactly one atomic step; the
// explorer owns the only source of nondeterminism (which thread steps next).
package sched

import "fmt"

// Thread is one cooperative thread of an execution.
type Thread interface {
	Enabled() bool
	Step()
}

// Execution is one fresh instance of the system under test.
type Execution interface {
	Threads() []Thread
	// Finish is called when no thread is enabled any more.
	Finish()
}

type point struct {
	enabled []int
	chosen  int
	prev    int // thread that ran before this point (-1 at the start)
	prevOn  bool
}

// Trace of one execution.
type Trace struct {
	points  []point
	Choices []int
}

// Explorer enumerates schedules.
type Explorer struct {
	New        func() Execution
	Check      func(x Execution, schedule []int)
	Bound      int
	MaxRuns    int64 // 0 = unlimited
	Schedules  int64
	Steps      int64
	Capped     bool
	Stop       func() bool
	maxPreempt int
}

func (e *Explorer) run(prefix []int) (*Trace, Execution) {
	x := e.New()
	ths := x.Threads()
	tr := &Trace{}
	prev := -1
	for {
		var en []int
		// canonical order: the running thread first if still enabled, then ascending ids
		if prev >= 0 && ths[prev].Enabled() {
			en = append(en, prev)
		}
		for i, t := range ths {
			if i != prev && t.Enabled() {
				en = append(en, i)
			}
		}
		if len(en) == 0 {
			break
		}
		k := len(tr.points)
		choice := 0
		if k < len(prefix) {
			choice = prefix[k]
			if choice >= len(en) {
				panic(fmt.Sprintf("sched: divergence while replaying a prefix: choice %d of %d enabled at point %d", choice, len(en), k))
			}
		}
		tr.points = append(tr.points, point{enabled: en, chosen: choice, prev: prev, prevOn: prev >= 0 && en[0] == prev})
		tr.Choices = append(tr.Choices, choice)
		ths[en[choice]].Step()
		e.Steps++
		prev = en[choice]
	}
	x.Finish()
	return tr, x
}

// Schedule converts choice indices into thread ids.
func (t *Trace) Schedule() []int {
	out := make([]int, len(t.points))
	for i, p := range t.points {
		out[i] = p.enabled[p.chosen]
	}
	return out
}

func (t *Trace) preemptionsBefore(i int) int {
	n := 0
	for k := 0; k < i; k++ {
		p := t.points[k]
		if p.prevOn && p.chosen != 0 {
			n++
		}
	}
	return n
}

// Explore enumerates every schedule with at most Bound preemptions.
func (e *Explorer) Explore() {
	e.explore(nil)
}

func (e *Explorer) explore(prefix []int) {
	if e.Capped {
		return
	}
	if (e.MaxRuns > 0 && e.Schedules >= e.MaxRuns) || (e.Stop != nil && e.Stop()) {
		e.Capped = true
		return
	}
	tr, x := e.run(prefix)
	e.Schedules++
	e.Check(x, tr.Schedule())
	for i := len(prefix); i < len(tr.points); i++ {
		p := tr.points[i]
		cost := tr.preemptionsBefore(i)
		if p.prevOn {
			cost++ // every alternative switches away from a runnable thread
		}
		if cost > e.Bound {
			continue
		}
		for alt := 1; alt < len(p.enabled); alt++ {
			np := append(append([]int{}, tr.Choices[:i]...), alt)
			e.explore(np)
			if e.Capped {
				return
			}
		}
	}
}

// Replay runs one schedule (choice indices) and returns the execution.
func (e *Explorer) Replay(choices []int) (Execution, []int) {
	tr, x := e.run(choices)
	return x, tr.Schedule()
}
