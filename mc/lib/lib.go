// Package lib drives the real library: compile modes and runs on harness environments.
package lib

import (
	"fmt"

	"github.com/antonmedv/expr"
	"github.com/antonmedv/expr/vm"

	"verif/mc/henv"
)

// Mode is one way of compiling and running.
type Mode struct {
	Env string // "struct", "ptr", "map", "noenv", "eval", "mapundef"
	Opt bool
}

func (m Mode) String() string {
	if m.Env == "eval" {
		return "eval"
	}
	if m.Opt {
		return m.Env + "+opt"
	}
	return m.Env + "+noopt"
}

var sampleMap = henv.AsMap(henv.MakeFull(henv.Val{}))

// AllModes are the eight compile modes of C01.
var AllModes = []Mode{{"struct", true}, {"struct", false}, {"ptr", true}, {"ptr", false}, {"map", true}, {"map", false}, {"noenv", true}, {"noenv", false}}

// StructModes exclude the map environment (whose member types come from sample values).
var StructModes = []Mode{{"struct", true}, {"struct", false}, {"ptr", true}, {"ptr", false}, {"noenv", true}, {"noenv", false}}

// Options returns the compile options of the mode.
func (m Mode) Options(extra ...expr.Option) []expr.Option {
	var ops []expr.Option
	switch m.Env {
	case "struct":
		ops = append(ops, expr.Env(henv.Env{}))
	case "ptr":
		ops = append(ops, expr.Env(&henv.Env{}))
	case "map":
		ops = append(ops, expr.Env(sampleMap))
	case "mapundef":
		ops = append(ops, expr.Env(sampleMap), expr.AllowUndefinedVariables())
	}
	ops = append(ops, expr.Optimize(m.Opt))
	return append(ops, extra...)
}

// Compile compiles src in the mode; a panic is turned into an error with Panicked set.
func Compile(src string, m Mode, extra ...expr.Option) (p *vm.Program, err error) {
	defer func() {
		if r := recover(); r != nil {
			p, err = nil, &PanicError{fmt.Sprint(r)}
		}
	}()
	return expr.Compile(src, m.Options(extra...)...)
}

// PanicError marks a panic that escaped the library.
type PanicError struct{ Msg string }

func (p *PanicError) Error() string { return "PANIC: " + p.Msg }

// RunEnv returns the value to pass to Run for the mode; names are the members the
// program mentions (a map environment is built with exactly those).
func (m Mode) RunEnv(e *henv.Env, names []string) interface{} {
	switch m.Env {
	case "struct", "noenv", "eval":
		return *e
	case "ptr":
		return e
	}
	if names == nil {
		return henv.AsMap(e)
	}
	return henv.AsMapOnly(e, names)
}

// Run runs the program; a panic is turned into a PanicError.
func Run(p *vm.Program, env interface{}) (out interface{}, err error) {
	defer func() {
		if r := recover(); r != nil {
			out, err = nil, &PanicError{fmt.Sprint(r)}
		}
	}()
	return vm.Run(p, env)
}

// Eval runs expr.Eval.
func Eval(src string, env interface{}) (out interface{}, err error) {
	defer func() {
		if r := recover(); r != nil {
			out, err = nil, &PanicError{fmt.Sprint(r)}
		}
	}()
	return expr.Eval(src, env)
}
