#!/usr/bin/env python3
"""sigs.py Cxx : summarise replay files of a property, grouping modes."""
import json,glob,collections,sys
pid=sys.argv[1]
sigs=collections.defaultdict(list)
for f in glob.glob('/verif/replays/%s-*.json'%pid):
    d=json.load(open(f))
    sigs[(d['kind'],d['witness'])].append((d['sub'],d['detail']))
lim=int(sys.argv[2]) if len(sys.argv)>2 else 60
for n,((k,w),v) in enumerate(sorted(sigs.items())):
    if n>=lim: print('... %d more'%(len(sigs)-lim)); break
    print(k,'|',w,'|',','.join(sorted(set(x[0] for x in v))))
    det=v[0][1]
    print('      ',str(det.get('env','')),'::',str(det.get('what',det))[:160].replace('\n',' '))
