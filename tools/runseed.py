#!/usr/bin/env python3
"""runseed.py <seed-id> <check[:tier]>... : apply /verif/seeded/<id>/patch.diff to /repo, run the checks, revert."""
import subprocess, sys, os
sid, ids = sys.argv[1], sys.argv[2:]
env = dict(os.environ, GOFLAGS="-mod=mod", GOPROXY="off", GOSUMDB="off", GOTOOLCHAIN="local")
patch = "/verif/seeded/%s/patch.diff" % sid
assert subprocess.run(["git","-C","/repo","status","--porcelain"],capture_output=True,text=True).stdout.strip()=="" , "repo dirty"
p = subprocess.run(["git","-C","/repo","apply",patch],capture_output=True,text=True)
if p.returncode != 0:
    print(sid, "patch does not apply:", p.stderr[:300]); sys.exit(2)
try:
    for cid in ids:
        tier = "quick"
        if ":" in cid: cid, tier = cid.split(":")
        p = subprocess.run(["/verif/check", cid, tier], env=env, capture_output=True, text=True)
        lines = [l for l in p.stdout.splitlines() if l.startswith("  violation")][:4]
        print(f"{sid} -> {cid} {tier}: exit={p.returncode}" + (" DETECTED" if p.returncode == 1 else " missed" if p.returncode == 0 else " ERROR"))
        for l in lines: print("     ", l[:230])
        if p.returncode not in (0,1): print(p.stdout[-600:], p.stderr[-600:])
finally:
    subprocess.run(["git","-C","/repo","checkout","--","."])
    subprocess.run(["git","-C","/repo","clean","-fdq"])
    subprocess.run(["git","-C","/verif","checkout","--","evidence"])  # evidence must describe runs on the unchanged tree
