#!/usr/bin/env python3
"""trymut.py <repo-file> <old> <new> [--nth N] [--tests] -- C01 C02 ...
Temporarily replaces the N-th occurrence (default 1) of <old> by <new> in /repo/<file>,
optionally runs the repository's own test-suite, runs the given checks (quick tier),
prints their verdicts and restores the file (git checkout)."""
import subprocess, sys, os
args = sys.argv[1:]
i = args.index("--")
opts, ids = args[:i], args[i+1:]
f, old, new = opts[0], opts[1], opts[2]
nth = 1
tests = False
j = 3
while j < len(opts):
    if opts[j] == "--nth": nth = int(opts[j+1]); j += 2
    elif opts[j] == "--tests": tests = True; j += 1
    else: j += 1
path = os.path.join("/repo", f)
src = open(path).read()
pos = -1
for _ in range(nth):
    pos = src.find(old, pos + 1)
    if pos < 0:
        print("pattern not found"); sys.exit(2)
open(path, "w").write(src[:pos] + new + src[pos+len(old):])
env = dict(os.environ, GOFLAGS="-mod=mod", GOPROXY="off", GOSUMDB="off", GOTOOLCHAIN="local")
try:
    if tests:
        p = subprocess.run("cd /repo && go test -vet=off -count=1 ./... 2>&1 | grep -v '^ok\\|no test files' | head -20", shell=True, env=env, capture_output=True, text=True)
        print("repo tests:", "PASS" if p.stdout.strip() == "" else "FAIL\n" + p.stdout)
    for cid in ids:
        tier = "quick"
        if ":" in cid: cid, tier = cid.split(":")
        p = subprocess.run(["/verif/check", cid, tier], env=env, capture_output=True, text=True)
        lines = [l for l in p.stdout.splitlines() if l.startswith("VIOLATION") or l.startswith("  violation") or l.startswith("KNOWN")][:6]
        print(f"{cid} {tier}: exit={p.returncode}")
        for l in lines: print("   ", l)
        if p.returncode not in (0, 1): print(p.stdout[-800:], p.stderr[-800:])
finally:
    subprocess.run(["git", "-C", "/repo", "checkout", "--", f])
    subprocess.run(["git","-C","/verif","checkout","--","evidence"])
