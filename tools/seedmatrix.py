#!/usr/bin/env python3
"""seedmatrix.py [tier] [seed-or-property ...] : (works on a scratch worktree of /repo and a scratch evidence root, so it can run next to other work)
 runs every seeded change against the check of the property it breaks (plus extra
checks listed in EXTRA) and writes /verif/DETECTION.md. Applies and reverts each patch on /repo."""
import subprocess, sys, os, json, glob, time
tier = sys.argv[1] if len(sys.argv) > 1 else "quick"
EXTRA = {"C01-1": ["C18", "C05"], "C01-3": ["C02"], "C04-1": ["C13"], "C04-2": ["C17"], "C04-3": ["C02"], "C04-6": ["C01", "C05"], "C06-4": ["C07"], "C06-6": ["C07"], "C09-6": ["C07"], "C14-6": ["C02"], "C15-6": ["C02"], "C03-6": ["C09"], "C13-4": ["C12"], "C05-1": ["C01"], "C05-3": ["C01"],
         "C09-3": ["C07"], "C10-3": ["C17"], "C13-1": ["C12"], "C15-2": ["C01"], "C17-1": ["C10"],
         "C01-8": ["C03", "C14"], "C01-9": ["C14"], "C05-7": ["C01"], "C05-8": ["C06", "C07"], "C05-9": ["C01"], "C09-7": ["C07"], "C13-7": ["C02"], "C15-7": ["C03"], "C15-8": ["C02"], "C15-9": ["C03"], "C02-7": ["C05"], "C03-7": ["C17"], "C17-7": ["C03"], "C17-9": ["C01", "C05"], "C04-9": ["C12"],
         "C06-7": ["C02"], "C07-8": ["C09"], "C08-7": ["C09", "C17"], "C10-8": ["C17"], "C10-9": ["C17", "C03"], "C12-8": ["C13"], "C14-7": ["C03", "C01"], "C14-8": ["C01"], "C14-9": ["C03", "C01"], "C18-7": ["C02"], "C18-8": ["C01", "C07"], "C18-9": ["C01"], "C11-9": ["C12"],
         "C01-10": ["C14", "C18"], "C01-11": ["C12"], "C01-12": ["C02"], "C02-10": ["C01", "C15"], "C03-10": ["C01"], "C03-11": ["C16"], "C03-12": ["C01"], "C05-10": ["C01"], "C05-11": ["C01"], "C05-12": ["C01"], "C06-10": ["C07"], "C07-12": ["C06"], "C09-10": ["C07", "C06"], "C10-12": ["C17"], "C12-10": ["C13"], "C12-11": ["C13"], "C12-12": ["C11"], "C13-12": ["C12"], "C14-10": ["C18", "C01"], "C14-11": ["C02"], "C14-12": ["C02"], "C15-10": ["C01"], "C15-12": ["C18", "C02"], "C16-12": ["C03"], "C17-11": ["C11"], "C18-10": ["C02", "C15"], "C18-11": ["C02"], "C18-12": ["C11"], "C14-9": ["C03"], "C17-9": ["C01", "C05"],
         "C02-13": ["C16"], "C03-13": ["C16"], "C03-14": ["C10"], "C06-14": ["C10"], "C06-15": ["C02"], "C14-13": ["C01"], "C14-14": ["C02"], "C14-15": ["C15"], "C15-15": ["C16"], "C13-13": ["C12"], "C10-12": ["C17"],
         "C01-16": ["C11"], "C01-18": ["C07"], "C10-17": ["C17"], "C10-18": ["C15"], "C14-16": ["C03"], "C18-16": ["C15"], "C09-18": ["C08"], "C09-16": ["C08"], "C18-17": ["C15"]}
import shutil, threading
from concurrent.futures import ThreadPoolExecutor
NPAR = int(os.environ.get("SEEDMATRIX_PAR", "3"))
own_only = "--own" in sys.argv
only = [a for a in sys.argv[2:] if not a.startswith("--")]
slots = []
for k in range(NPAR):
    REPO = "/tmp/seedmatrix-repo-%d" % k
    ROOT = "/tmp/seedmatrix-root-%d" % k
    subprocess.run(["git","-C","/repo","worktree","remove","--force",REPO],capture_output=True)
    subprocess.run(["git","-C","/repo","worktree","add","-q","--detach",REPO,"HEAD"],check=True)
    os.makedirs(ROOT, exist_ok=True)
    shutil.copy("/verif/KNOWN_FINDINGS.txt", ROOT)
    slots.append((REPO, ROOT))
free = list(range(NPAR)); lock = threading.Lock()
rows = []
def one(d):
    sid = os.path.basename(d)
    meta = json.load(open(d + "/meta.json"))
    prop = meta["breaks_property"]
    if meta.get("status") == "neutralised":
        return (sid, prop, "neutralised by a later library fix (no longer breaks the property): " + meta["neutralised_because"][:160], "")
    with lock: k = free.pop()
    REPO, ROOT = slots[k]
    env = dict(os.environ, GOFLAGS="-mod=mod", GOPROXY="off", GOSUMDB="off", GOTOOLCHAIN="local", VERIF_REPO=REPO, VERIF_ROOT=ROOT, VERIF_WORKERS=str(max(4, 16 // NPAR + 2)))
    try:
        assert subprocess.run(["git","-C",REPO,"status","--porcelain"],capture_output=True,text=True).stdout.strip()=="", "scratch repo dirty"
        p = subprocess.run(["git","-C",REPO,"apply",d+"/patch.diff"],capture_output=True,text=True)
        if p.returncode != 0:
            return (sid, prop, "patch does not apply to the current tree", "")
        res = []
        first = ""
        for cid in [prop] + ([] if own_only else EXTRA.get(sid, [])):
            t0 = time.time()
            q = subprocess.run(["/verif/check", cid, tier], env=env, capture_output=True, text=True)
            verdict = {0: "missed", 1: "DETECTED"}.get(q.returncode, "error(%d)" % q.returncode)
            sig = [l.strip() for l in q.stdout.splitlines() if l.startswith("  violation sig=")]
            if sig and not first: first = sig[0].replace("violation sig=", "")[:110]
            res.append("%s: %s (%.0fs)" % (cid, verdict, time.time() - t0))
        print(sid, "; ".join(res), flush=True)
        return (sid, prop, "; ".join(res), first)
    finally:
        subprocess.run(["git","-C",REPO,"checkout","--","."]); subprocess.run(["git","-C",REPO,"clean","-fdq"])
        with lock: free.append(k)
ds = []
for d in sorted(x for x in glob.glob("/verif/seeded/*") if os.path.isdir(x)):
    sid = os.path.basename(d)
    prop = json.load(open(d + "/meta.json"))["breaks_property"]
    if only and sid not in only and prop not in only: continue
    ds.append(d)
with ThreadPoolExecutor(NPAR) as ex:
    rows = list(ex.map(one, ds))
# merge with earlier results (so that a partial run refreshes only the seeds it ran)
store = "/verif/seeded/matrix.json"
allrows = {}
if os.path.exists(store):
    allrows = json.load(open(store))
for r_ in rows:
    allrows[r_[0]] = list(r_)
json.dump(allrows, open(store, "w"), indent=0, sort_keys=True)
rows = [tuple(allrows[k]) for k in sorted(allrows)]
with open("/verif/DETECTION.md", "w") as f:
    f.write("# Detection of the seeded changes (%s tier)\n\nGenerated by tools/seedmatrix.py: every change under /verif/seeded is applied to /repo, the check of the property it breaks (and the other checks listed) is run, and the change is reverted. Each change was made by an independent sub-agent that saw only the property text, compiles, and passes the repository's own test-suite.\n\n| seed | breaks | verdicts | first signature |\n|---|---|---|---|\n" % tier)
    for r in rows:
        f.write("| %s | %s | %s | `%s` |\n" % (r[0], r[1], r[2], r[3].replace("|", "\\|")))
for REPO, ROOT in slots:
    subprocess.run(["git","-C","/repo","worktree","remove","--force",REPO])
    shutil.rmtree(ROOT, ignore_errors=True)
print("written")
