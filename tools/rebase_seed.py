#!/usr/bin/env python3
"""rebase_seed.py <seed-id> (<file> <old> <new>)... : re-create a seeded patch against /repo's current HEAD
by applying the given textual edits, keeps the original as patch.orig.diff and marks meta.json."""
import sys, subprocess, json, os, shutil
sid = sys.argv[1]; edits = sys.argv[2:]
d = "/verif/seeded/" + sid
assert subprocess.run(["git","-C","/repo","status","--porcelain"],capture_output=True,text=True).stdout.strip()==""
try:
    for i in range(0, len(edits), 3):
        f, old, new = edits[i:i+3]
        p = os.path.join("/repo", f); s = open(p).read()
        assert s.count(old) >= 1, "pattern not found in " + f
        open(p, "w").write(s.replace(old, new, 1))
    diff = subprocess.run(["git","-C","/repo","diff"],capture_output=True,text=True).stdout
    if not os.path.exists(d + "/patch.orig.diff"): shutil.copy(d + "/patch.diff", d + "/patch.orig.diff")
    open(d + "/patch.diff", "w").write(diff)
    m = json.load(open(d + "/meta.json")); m["rebased"] = "patch.diff re-created by hand against the tree after later fix: commits touched the same lines; the original is patch.orig.diff"
    json.dump(m, open(d + "/meta.json", "w"), indent=1)
    print("rebased", sid, len(diff), "bytes")
finally:
    subprocess.run(["git","-C","/repo","checkout","--","."])
