#!/usr/bin/env python3
"""vetseed.py <srcdir> <seed-id> <property> : confirm a seeded change in a scratch worktree
(applies cleanly, repo suite passes with it, demo passes without and fails with it), then store it
under /verif/seeded/<seed-id>/ with meta.json."""
import subprocess, sys, os, json, shutil, re
src, sid, prop = sys.argv[1], sys.argv[2], sys.argv[3]
env = dict(os.environ, GOFLAGS="-mod=mod", GOPROXY="off", GOSUMDB="off", GOTOOLCHAIN="local")
wt = "/tmp/vet-%d" % os.getpid()
def sh(cmd, cwd=None):
    p = subprocess.run(cmd, shell=True, cwd=cwd, env=env, capture_output=True, text=True)
    return p.returncode, (p.stdout + p.stderr)
rc, out = sh("git -C /repo worktree add -q --detach %s HEAD" % wt)
assert rc == 0, out
res = {}
try:
    demo = os.path.join(src, "demo_test.go")
    pkgline = open(demo).read()
    m = re.search(r'^package (\w+)', pkgline, re.M)
    pkg = m.group(1)
    dest = wt if pkg in ("expr_test", "expr") else None
    notes = open(os.path.join(src, "notes.md")).read() if os.path.exists(os.path.join(src, "notes.md")) else ""
    if dest is None:
        # guess the directory from the package name
        for d in ("vm","compiler","checker","parser","optimizer","ast","conf","file","docgen"):
            if pkg in (d, d+"_test"): dest = os.path.join(wt, d)
    shutil.copy(demo, os.path.join(dest, "zz_demo_test.go"))
    rel = os.path.relpath(dest, wt)
    rc, out = sh("go test -vet=off -count=1 ./%s 2>&1 | tail -5" % rel, wt)
    res["demo_without_patch"] = "pass" if "ok " in out and "FAIL" not in out else "FAIL: " + out[-300:]
    rc, out = sh("git apply %s" % os.path.join(src, "patch.diff"), wt)
    res["patch_applies"] = rc == 0
    if rc != 0: res["apply_error"] = out[-300:]
    os.remove(os.path.join(dest, "zz_demo_test.go"))
    rc, out = sh("go build ./... && go test -vet=off -count=1 ./... 2>&1 | grep -v '^ok\\|no test files' | head", wt)
    res["suite_with_patch"] = "pass" if out.strip() == "" else "FAIL: " + out[-400:]
    shutil.copy(demo, os.path.join(dest, "zz_demo_test.go"))
    rc, out = sh("timeout 600 go test -vet=off -count=1 ./%s 2>&1 | tail -8" % rel, wt)
    res["demo_with_patch"] = "fail (as required)" if ("FAIL" in out or "panic" in out or "fatal error" in out) else "PASSES (seed does not manifest): " + out[-200:]
finally:
    sh("git -C /repo worktree remove --force %s" % wt)
ok = res.get("patch_applies") and res.get("suite_with_patch") == "pass" and res.get("demo_without_patch") == "pass" and res.get("demo_with_patch", "").startswith("fail")
print(sid, "OK" if ok else "REJECTED", json.dumps(res))
if ok:
    d = "/verif/seeded/%s" % sid
    os.makedirs(d, exist_ok=True)
    shutil.copy(os.path.join(src, "patch.diff"), d)
    shutil.copy(demo, os.path.join(d, "demo_test.go"))
    if notes: open(os.path.join(d, "notes.md"), "w").write(notes)
    meta = {"id": sid, "breaks_property": prop, "origin": "independent sub-agent given only the property text and a scratch worktree",
            "needs_to_manifest": "see notes.md", "vetted": res,
            "vet_commands": ["git worktree add (scratch)", "go test -vet=off ./<pkg> with demo, without patch: pass", "git apply patch.diff", "go test -vet=off -count=1 ./... : pass", "go test with demo: fail"],
            "demo_location": os.path.relpath(dest, wt) if dest else "."}
    json.dump(meta, open(os.path.join(d, "meta.json"), "w"), indent=1)
