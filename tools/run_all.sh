#!/bin/sh
# run_all.sh <tier> [ids...] : runs the checks one after the other, dumping every signature seen
# to sigs/<id>.<tier>.txt (relative to the current directory) and a one-line verdict per check.
TIER=${1:-quick}; shift
IDS=${*:-C01 C02 C03 C04 C05 C06 C07 C08 C09 C10 C11 C12 C13 C14 C15 C16 C17 C18}
mkdir -p sigs
for c in $IDS; do
	start=$(date +%s)
	VERIF_DUMP_SIGS=$PWD/sigs/$c.$TIER.txt ./check $c $TIER > sigs/$c.$TIER.log 2>&1
	rc=$?
	echo "$c $TIER exit=$rc wall=$(( $(date +%s) - start ))s :: $(tail -1 sigs/$c.$TIER.log | cut -c1-120)"
done
