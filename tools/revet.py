#!/usr/bin/env python3
"""revet.py [seed ...] : after /repo's HEAD moved (a new fix), confirm again for every seeded change that it still
applies, that the repository suite still passes with it and that its demonstration still fails with it (and passes
without it). Works in scratch worktrees under /tmp, 8 at a time; prints one line per seed."""
import subprocess, sys, os, json, glob, shutil, re
from concurrent.futures import ThreadPoolExecutor
env = dict(os.environ, GOFLAGS="-mod=mod", GOPROXY="off", GOSUMDB="off", GOTOOLCHAIN="local")
def sh(cmd, cwd=None):
    p = subprocess.run(cmd, shell=True, cwd=cwd, env=env, capture_output=True, text=True)
    return p.returncode, p.stdout + p.stderr
def one(d):
    sid = os.path.basename(d)
    wt = "/tmp/revet-" + sid
    sh("git -C /repo worktree remove --force %s" % wt)
    rc, out = sh("git -C /repo worktree add -q --detach %s HEAD" % wt)
    if rc: return sid, "worktree: " + out[-200:]
    try:
        meta = json.load(open(d + "/meta.json"))
        dest = os.path.join(wt, meta.get("demo_location", "."))
        demo = d + "/demo_test.go"
        rel = os.path.relpath(dest, wt)
        shutil.copy(demo, dest + "/zz_demo_test.go")
        rc, out = sh("go test -vet=off -count=1 ./%s 2>&1 | tail -5" % rel, wt)
        if not ("ok " in out and "FAIL" not in out): return sid, "demo fails WITHOUT the patch: " + out[-200:].replace("\n", " ")
        rc, out = sh("git apply %s/patch.diff" % d, wt)
        if rc: return sid, "patch does not apply"
        os.remove(dest + "/zz_demo_test.go")
        rc, out = sh("go build ./... && go test -vet=off -count=1 ./... 2>&1 | grep -v '^ok\\|no test files' | head -5", wt)
        if out.strip(): return sid, "suite fails with the patch: " + out[-200:].replace("\n", " ")
        shutil.copy(demo, dest + "/zz_demo_test.go")
        rc, out = sh("timeout 600 go test -vet=off -count=1 ./%s 2>&1 | tail -8" % rel, wt)
        if not ("FAIL" in out or "panic" in out or "fatal error" in out): return sid, "demo PASSES with the patch (no longer manifests)"
        return sid, "ok"
    finally:
        sh("git -C /repo worktree remove --force %s" % wt)
ds = sorted(x for x in glob.glob("/verif/seeded/*") if os.path.isdir(x) and (len(sys.argv) < 2 or os.path.basename(x) in sys.argv[1:]))
with ThreadPoolExecutor(6) as ex:
    for sid, res in ex.map(one, ds):
        print(sid, res, flush=True)
