#!/usr/bin/env python3
"""Generates /verif/MANIFEST.json from the table below (single source of truth)."""
import json, os, sys
ROOT = os.path.dirname(os.path.dirname(os.path.abspath(__file__)))
ALL = ["C%02d" % i for i in range(1, 19)]

CHECKS = {
 "C01": dict(
  technique="small-scope exhaustive enumeration of typed expressions x environment values x compile modes on the real Compile/Run, against an independent reference evaluator (value, failure, call log)",
  text="Every expression of four slice grammars (control/short-circuit with logging calls, scalar operators, access/nil-safe/calls/literals, the seven closure builtins nested) up to a node budget is compiled in 8 modes (struct, *struct, map, no Env x optimize on/off) and run on the full product of the small value domains of the members it mentions; result, failure and the call log (exactly-once, left-to-right, only-needed) must equal a tree-walking reference evaluator written from the language definition. Unit tests fix one environment and ~150 expressions; this covers every nesting of jumps, scopes and operand orders inside the bound. A watchdog turns non-terminating or memory-exploding runs into reported violations.",
  note="Trusted: the reference evaluator mc/ref (boring, ~500 lines) and the harness environment; bounded by node budget and value domains (no random extension).",
  ref="DESIGN.md section 4 C01"),
 "C02": dict(
  technique="small-scope exhaustive enumeration of every rewrite-firing context x operand static types x environment values, differential oracle Optimize(true) vs Optimize(false) and ConstExpr marked vs unmarked on the real Compile/Run",
  text="Every expression (to a node budget) of an alphabet in which each optimizer rewrite can fire - constant arithmetic at any depth, literal arrays, in/not in over literal arrays and ranges with left operands of every static type (int kinds, floats, strings, nil, dynamic), constant ranges, const-expr calls with literal/folded/nested arguments - placed under calls with sized/float/interface parameters, conditionals and closures, is compiled optimized and unoptimized in struct/map/no-env modes and run on every value: both fail or both return equal values; the optimizer may reject only a constant integer division by zero; a ConstExpr mark may only move that call's failure to compile time.",
  note="Trusted: result normal form (kind-exact numbers, element-wise sequences); no expected values are needed. Bounded by node budget and value domains.",
  ref="DESIGN.md section 4 C02"),
 "C03": dict(
  technique="small-scope exhaustive enumeration of well-typed expressions (typed by construction) x values x result directives against the reference evaluator and checker.Check's reported type, plus exhaustive single-fault mutation (every position x fault kind) on the real Compile",
  text="(i) Every expression of a statically typed grammar over every numeric kind, strings, bools, structs, slices, maps, functions and methods (and of the scalar/access/loops slices without dynamic sub-expressions) must compile; no run may fail where the dynamically typed reference evaluator succeeds (a type-reason failure); the result's dynamic type must be the type checker.Check reports and exactly bool/int64/float64 under AsBool/AsInt64/AsFloat64. (ii) Every single-fault mutant - unknown name/function/field/method, arity +-1, argument of a wrong type, mismatching operand of each operator, non-boolean condition or predicate, non-collection builtin argument, wrong index/slice-bound type - at every position must be rejected by Compile, optimized and not.",
  note="Trusted: the typed grammar as the definition of well-typedness (Appendix E) and the reference evaluator; no error text is parsed.",
  ref="DESIGN.md section 4 C03, Appendix E"),
 "C04": dict(
  technique="exhaustive enumeration of byte strings and token sequences up to a length, and of programs/mutants x option sets within deviation bound 2 x hostile run environments, through Parse/Eval/Compile/Run with panic and hang containment (recover, watchdog, crash-contained subprocess for 64 KiB stress shapes)",
  text="All byte strings of <= 3/4 bytes over a 38-byte alphabet (every token class, quotes, escapes, multi-byte and invalid UTF-8) and all sequences of <= 3/4 tokens over 30 tokens go through Parse, Eval and Compile+Run+Disassemble; ~1500 programs and single-fault mutants are compiled under every option set within 2 deviations from the default (27 options including ill-shaped Operator/ConstExpr tables and Patch visitors that replace a node by every node kind, nil or a foreign node) and run on 9 environments (matching, nil, wrong shapes, nil members, nil pointer); 29 shapes of 64 KiB run in subprocesses under an address-space limit and a deadline. Oracle: no panic, no hang, error implies nil result, no error implies a usable program.",
  note="Trusted: Go's recover for ordinary panics, the subprocess boundary for fatal errors; lengths between the bound and 64 KiB only through the stress family.",
  ref="DESIGN.md section 4 C04"),
 "C05": dict(
  technique="explicit-state exploration of all paths of every emitted program through an abstract stack machine (states = ip x abstract stack x scope stack; branch outcomes and collection lengths as nondeterministic environment answers), static decoding, and conformance replay of single-stepped runs of the real VM against the model's transition table",
  text="Every program compiled from six slice grammars (optimized and not, struct/map/no-env) is decoded by an independent decoder (known opcodes, operands present, constant indices in range and of the expected kind, jump targets on instruction boundaries or at the end), then ALL its paths are explored in an abstract machine whose invariants are: no pop of an empty stack, scope operations only inside Begin..End, exactly one value and no open scope at the end. The model is bound to the code by single-stepping every program on every environment value through vm.Debug() and checking each observed (ip, depth, scopes) step against the per-opcode table. Boundary families sweep branch bodies around 2^16 bytes for every jump-emitting scheme and constant pools around 2^16 entries.",
  note="Trusted: the per-opcode effect table mc/bc (transcribed from vm/vm.go, symbolic opcodes only); lengths {0,1,2} as environment answers; 300000-state cap per program (reported).",
  ref="DESIGN.md section 4 C05, Appendix A"),
 "C06": dict(
  technique="exhaustive enumeration of allocating expressions x run-time bounds x budgets 1..12 on the real VM, oracle = reference allocation count (succeeds iff need < budget), plus a boundary family at the default budget",
  text="All expressions of the allocating slice (array/map literals with non-constant elements, run-time ranges ascending/equal/descending, map/filter results, nestings, intermediate collections) up to a node budget, for every value of the bounds and every budget 1..12 (barrier between budgets since vm.MemoryBudget is global), optimized/unoptimized/no-env: the run must succeed exactly when the reference evaluator's allocation count is below the budget. The existing test has one expression and one budget.",
  note="Trusted: reference allocation count (sum of lengths of created collections); budgets 1..12 and the default.",
  ref="DESIGN.md section 4 C06"),
 "C08": dict(
  technique="stateless preemption-bounded exploration (iterative context bounding, replayed prefixes) of all interleavings of 2-3 VM threads at instruction granularity through the vm.Debug() seam, and of 2-3 concurrent Compile calls at visitor-callback and (through scheduling points injected by a build overlay generated from the current sources) method-entry granularity, with deep snapshots of the shared programs, environments, option slices and every package-level variable; plus a declared auxiliary free-running pass under the race detector",
  text="The explorer is the only thing that lets a VM advance: every schedule with at most 2 preemptions (2 threads) / 1 preemption (3 threads; +1 in the thorough tier) of threads running FRESH shared program instances (compiled regexp, lookup map, folded slice, call descriptors, nested scopes, ranges, dynamic patterns, a failing run on a multi-line source) on two shared read-only environments is executed; every run must return its solo result and the canonical deep snapshot of the shared programs and environments must be unchanged after every schedule. Replay determinism is checked first; a divergence while replaying a prefix is a hard error. Accesses between two scheduling points and concurrent Compile calls are covered by the same bodies run free under -race (auxiliary, not model checking).",
  note="Trusted: instruction boundaries as scheduling points; the race detector for the auxiliary pass; if the library starts importing package sync, snapshot changes are reported only together with a race report.",
  ref="DESIGN.md section 4 C08"),
 "C09": dict(
  technique="exhaustive enumeration of expressions x option configurations with repeated compilation, deep before/after snapshots and a second process; explicit enumeration of short histories (pairs, triples) of compile operations; exhaustive exploration of every permutation of every map iterated during Compile and Run through a seam generated from the current sources (explicit enumeration of environment answers)",
  text="Every expression of six corpora x 8 option configurations is compiled three times with unrelated compiles in between (identical bytecode, constants in order, locations; probes compiled first-in-process and again at the end expose dependence on earlier compiles); the corpus is re-hashed in a second process; a generated build overlay routes every map iteration of the library through a seam, and for 288 configurations (operator tables with overlapping candidates, several ConstExpr functions, small map environments, structs with two embedded structs) every permutation (<= 4 entries; three fixed ones above) of every iteration visit is explored within deviation bound 1 (2 in the thorough tier): the program must not change; program, run environment and Env() sample are deeply snapshotted before/after every run; a second run on an equal environment and a reused vm.VM must give equal results.",
  note="Trusted: canonical deep snapshots (mc/snap); the seam generator (go/types based, regenerated from the tree under test at every run; sites it cannot rewrite are listed); cross-process axis is two samples.",
  ref="DESIGN.md section 4 C09, section 3.6"),
 "C10": dict(
  technique="exhaustive enumeration of syntax trees built from the ast types (every node kind in every child slot of every node kind, to a depth bound) with a reflection-derived reference traversal, every position replaced by a visitor, plus end-to-end one-hole contexts compiled with a Patch visitor",
  text="For every tree: ast.Walk must produce exactly the Enter/Exit sequence computed by reflection over the ast.Node and []ast.Node fields in declaration order (each node once, parents around children, children in source order); for every position, a visitor replacing that node on Exit and on Enter must leave the replacement in that slot and (on Enter) have its children walked. End to end, every one-hole context C[41] of a hole grammar (under slices, indexes, closures, arguments, map keys/values, branches, ranges) compiled with a Patch visitor rewriting 41 to 42 must evaluate like C[42] in three modes.",
  note="Trusted: reflection over the node struct fields as the definition of 'children in source order'.",
  ref="DESIGN.md section 4 C10"),
 "C11": dict(
  technique="exhaustive enumeration of syntax trees (to a node budget) and of token sequences (to a length bound) on the real parser against an independent precedence-climbing reference parser with its own binding-power table",
  text="(i) Every tree of a syntactic grammar (all 23 binary operators, 3 unary, conditional, 7 postfix forms, calls, builtin with closure, arrays, map; and a deeper pass with one operator per precedence class) is printed with a locally minimal parenthesisation decided by the reference parser, fully parenthesised, with redundant parentheses and in tab/newline/mixed layouts: the real parser must return exactly that tree. (ii) Every token sequence of <= 4/5 tokens over a 26-token alphabet: accepted iff the reference grammar accepts, with the same tree.",
  note="Trusted: the reference grammar mc/refparse (Appendix B); the real lexer supplies tokens (checked by C12).",
  ref="DESIGN.md section 4 C11, Appendix B"),
 "C12": dict(
  technique="exhaustive round-trip enumeration: all strings over a small rune alphabet x quote styles x all spelling combinations; integer and float boundary grids x spellings; all short token sequences x all whitespace choices with independently computed positions, on the real lexer/parser",
  text="Strings of <= 2/3 runes over 14 runes (NUL, controls, both quotes, backslash, ASCII, 2/3/4-byte runes, U+FFFD) in both quote styles and every combination of supported spellings must lex to exactly that string; ~4600 integers (0..4096, 2^k+-1, 10^k+-1, every hex digit incl. 'e' in every position) in decimal, '_'-separated and hexadecimal spellings, and ~1300 finite floats in e/E/f/g, fixed-precision and leading-dot forms must parse to exactly that number; every sequence of <= 3 (4) tokens with every whitespace choice per gap, including multi-byte runes and 'not' before words starting with 'in', must report line/column of each token's first character.",
  note="Trusted: the harness's own position arithmetic and Go's strconv for the expected numeric values; integers/floats on grids, not all values.",
  ref="DESIGN.md section 4 C12"),
 "C13": dict(
  technique="exhaustive single-fault injection with independently known positions over all expressions of three slices x four layouts on the real Compile/Run: run-time failures located by the reference evaluator, injected compile-time faults at every position, every single stray/deleted token",
  text="For every expression (to a node budget) in single-line, multi-line and non-ASCII-prefixed layouts: every run that the reference evaluator fails at a located node must be reported at that node's location token (operator, '[', member name, function name), optimized and not, typed and untyped (including fetches of missing members); every injected single fault (unknown name/function/field, one mismatching operand of a binary/unary operator) at every position must be reported at that position; every stray token (4 kinds) at every token boundary and every deleted token must be reported where the reference grammar stops; every reported location must lie inside the source and the snippet must be the named line.",
  note="Trusted: the location convention of Appendix D; positions come from the harness printer (independent of the lexer) except for syntax faults.",
  ref="DESIGN.md section 4 C13, Appendix D"),
 "C14": dict(
  technique="fully exhaustive enumeration of 12x12 kind pairs x 12 operators (+ unary minus) x boundary-value grids on the real Compile/Run against an independent bit-level arithmetic model",
  text="All ordered pairs of the 12 numeric kinds, all arithmetic/comparison operators, unary minus and **, on the full product of a per-kind boundary grid (0, +-1, extrema, truncating and sign-changing bit patterns, floats not representable in float32), typed and untyped: result kind and bits must equal the promotion model (convert lower-ranked operand, wrap to result width, truncating division, division by zero fails) and the kind must be the one checker.Check predicts. One transposed conversion among ~1500 generated cases is caught; TestExpr samples a handful.",
  note="Trusted: the arithmetic model mc/ref/num.go; rank list as in DESIGN; values outside the grid are not explored.",
  ref="DESIGN.md section 4 C14"),
 "C15": dict(
  technique="small-scope exhaustive enumeration of expressions x values, differential oracle across {Eval, Compile without Env, Env(struct), Env(*struct), Env(map), Env(map)+AllowUndefinedVariables, Optimize(false)} on the real library",
  text="Every expression of the C01 slices plus a slice with named numeric/string types, sized kinds, dynamic members, retyped literals, fast calls and nested builtins over collections of different element types is evaluated by every variant; all variants that succeed must return equal results and call logs. This pins every place where a static type selects a specialised opcode or rewrite (OpEqualInt/OpEqualString, OpFetchMap, OpCallFast, literal retyping, type-guarded optimizations).",
  note="Trusted: result normal form; only successes are compared, as the property states.",
  ref="DESIGN.md section 4 C15"),
 "C16": dict(
  technique="exhaustive enumeration over a generated family of environment types (every ordered choice of <= 3 slots from 13 field/embedding kinds) x names x forms x {value, pointer} on the real Compile/Run/docgen, oracle = Go's own selector resolution through reflect",
  text="1749 generated struct types (direct, unexported, function-typed fields, structs embedded by value and by pointer, deep embedding, an unexported embedded struct, value/pointer methods, a method shadowing a promoted field; shadowing and genuine ambiguity at depths 0-2 in every field order) x 18 names (members and near-misses) x {Name, Name(), V.Name, V.Name()} x {value, pointer}: an accepted name must run on the populated value and yield a value of the checker's type (and the value Go selects); an exported member Go resolves unambiguously must be accepted; docgen must list exactly the accepted top-level names; plus typed, untyped and named map environments.",
  note="Trusted: reflect.FieldByName / MethodByName as the definition of Go's resolution. The family is finite by construction (<= 3 slots).",
  ref="DESIGN.md section 4 C16"),
 "C17": dict(
  technique="small-scope exhaustive enumeration of expressions with overloadable operator occurrences in every context x 8 overload tables x values, differential oracle operator form vs explicit-call form on the real Compile/Run, plus every ill-shaped table",
  text="Every expression (to a node budget) over +, -, ==, <, in, and occurrences with matching, non-matching, dynamic and nil operand types, nested and under indexes, slices, closures, arguments, methods, map values, array elements and branches, is compiled with each of 8 operator tables (one method; three candidates; string minus; object comparison; function-typed field; interface{} parameters; in/and; Stringer interface) and compared on every value (result, failure, call log) with the same expression in which exactly the statically matching occurrences are replaced by the explicit call. Ten ill-shaped tables (missing, non-function, wrong arity, two/no results) must be rejected in five compile modes.",
  note="Trusted: the static operand types of the harness grammar (reference typing rules) decide which occurrence matches.",
  ref="DESIGN.md section 4 C17"),
 "C18": dict(
  technique="exhaustive enumeration of array expressions x predicates/mappers over '#' x values on the real library with a metamorphic oracle (each defining identity run as two programs and as one expression)",
  text="For every array expression (members, ranges, literals, filter/map results, and the element of an outer closure) and every predicate over '#' up to a node budget (including predicates that contain builtins over other arrays), in optimized/unoptimized/no-env modes and for every value: all = not any not, none = not any, one = (count = 1), count = len(filter), any = count > 0, len(map) = len, filter idempotent and equal to the element-wise selection, innermost-'#' law, x in a..b = two-sided comparison over integer kinds, xs[:i] ++ xs[i:] = xs for i in -1..len+1 with coinciding failures. No reference values are involved.",
  note="Trusted: the identities themselves; bounded by node budgets and value domains.",
  ref="DESIGN.md section 4 C18"),
 "C07": dict(
  technique="explicit-state BFS over run histories on one VM value with the real (*VM).Run as transition function, to a fixpoint of the reachable VM-state set",
  text="Every history over an alphabet of 13 run/configuration operations (trivial, allocating, failing at the first instruction, failing inside nested loops with open scopes, budget exhaustion, longer/shorter programs, map-env after struct-env, panicking call, MemoryBudget changes) is explored breadth-first on one vm.VM value; states are de-duplicated on the hash of ALL VM fields, and the search runs until no new state appears (closed state space) or the depth bound. Every run is compared with a fresh VM. This is exhaustive for the alphabet, which unit tests (that never reuse a VM) cannot be.",
  note="Trusted: reflection-based state hash covers every field Run can read; alphabet of operations is fixed and small; debug VMs excluded.",
  ref="DESIGN.md section 4 C07"),
}

def main():
    checks = []
    for pid in ALL:
        if pid not in CHECKS:
            continue
        c = CHECKS[pid]
        checks.append({
            "property_id": pid,
            "quick_cmd": "./check %s quick" % pid,
            "thorough_cmd": "./check %s thorough" % pid,
            "evidence_file": "/verif/evidence/%s.json" % pid,
            "replay_cmd_template": "./check %s --replay {path}" % pid,
            "engine": "mc",
            "level_claimed": {"category": "model_checking", "text": c["text"], "design_ref": c["ref"]},
            "level_note": c["note"],
            "technique": c["technique"],
        })
    na = [{"property_id": p, "reason": "check not yet built (planned, see DESIGN.md section 4); no claim is made"} for p in ALL if p not in CHECKS]
    m = {
        "version": 1,
        "setup_cmd": "./setup.sh",
        "hooks": {
            "guard": "verif",
            "enable": "no hook is committed to /repo; C09 (and the globals accessor for C08) generate additive files at check time from the current sources (rewritten copies of files that range over maps or contain methods of the compile pipeline - the latter get a call to verifseam.Point at their entry, a scheduling point for the C08 explorer -, a virtual package verifseam, one zz_verif_globals.go per package under build tag verif) and build the checker with `go build -tags verif -overlay <generated overlay.json>`; /repo itself is never modified",
            "baseline_off_cmd": "cd /repo && GOFLAGS=-mod=mod go test -json -vet=off -count=1 -timeout 25m ./...",
            "source_commits": [],
            "add_only": True,
        },
        "engines": [{
            "name": "mc", "path": "/verif/mc", "serves_properties": sorted(CHECKS.keys()),
            "kind_free_text": "hand-written bounded-exhaustive explorers in Go run against the real packages: small-scope typed expression enumerator + reference evaluator, abstract bytecode machine + VM history BFS, preemption-bounded scheduler over debug VMs",
        }],
        "checks": checks,
        "notes": "All checks: ./check <id> quick|thorough rebuilds /verif/mc against /repo's working tree (replace directive), rewrites evidence/<id>.json, prints KNOWN-FINDING lines for entries of KNOWN_FINDINGS.txt and VIOLATION lines otherwise.",
        "not_applicable": na,
    }
    with open(os.path.join(ROOT, "MANIFEST.json"), "w") as f:
        json.dump(m, f, indent=1)
        f.write("\n")

if __name__ == "__main__":
    main()
